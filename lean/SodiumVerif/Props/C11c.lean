/-
  C11 (third part) — `hold_lazy` of a Lazy that could not be read when it was taken.

  `sample_lazy` on a CellLoop that is not looped yet gives a Lazy that cannot be forced; `hold_lazy` does
  not force it.  In S this is the definition `.holdz s c` (`c` = the cell the Lazy was taken from):

    * it fires exactly what `s` fires (`holdz_fires`), like `.hold`;
    * while nothing is stored for it, its value is the value of `c` (`holdz_unresolved`);
    * at the end of the first transaction at whose START `c` has a value, that value becomes the cell's
      own stored value, unless `s` fires in that transaction, in which case the event wins
      (`holdz_resolves`, `holdz_updated`); the value taken is the one `c` had at the start of that
      transaction, not the one `c` has after it (second `example`);
    * from then on it is an ordinary `hold`: the stored value is its value whatever `c` becomes
      (`holdz_sticky`), and a transaction in which it does not fire leaves it unchanged (`holdz_unchanged`).

  At the level of the script semantics (`Spec/Script.lean`), `closeTxn` first fixes the unresolved Lazies
  that are still held as handles (`resolveLazies`); that step touches the name table only
  (`resolveLazies_sp` … `resolveLazies_dead`).
-/
import SodiumVerif.Lemmas.SpecCell
import SodiumVerif.Spec.Script

namespace SodiumVerif
namespace Spec

section
variable {sp : Spec} {ev : Events} {i : Nat}

/-! ### firing -/

/-- the update of `s.hold_lazy(z)` is the firing of `s` (same form as `hold_fires`, `Props/C02.lean`) -/
theorem holdz_fires {s c} (h : sp.getDef i = .holdz s c) (hr : Resolved sp ev i) :
    fire (fireTable sp ev) i = fire (fireTable sp ev) s := by
  have := fire_unary (s := s) (g := id) (fun look => by rw [fireOf_holdz sp ev look i h]; simp) hr
  simpa using this

/-! ### value -/

/-- as long as nothing is stored for it, a `holdz` has the value of the cell its Lazy was taken from
    (`none` while that cell is an unclosed CellLoop) -/
theorem holdz_unresolved {rank : Nat → Nat} (wr : WellRanked sp rank) {s c}
    (h : sp.getDef i = .holdz s c) (hs : sp.stored.get i = none) : sp.val i = sp.val c := by
  rw [val_eq wr i, hs, h]

/-- **the Lazy is fixed at the end of the transaction in which it first can be read**: nothing stored
    yet, the `holdz` does not fire, and `c` has the value `v` at the START of the transaction; then `v` is
    stored, and is the value of the `holdz` afterwards.  (`sp.val c`, not `(stepTxn sp ev).val c`.) -/
theorem holdz_resolves {s c v} (h : sp.getDef i = .holdz s c) (hs : sp.stored.get i = none)
    (hf : fire (fireTable sp ev) i = none) (hv : sp.val c = some v) :
    (stepTxn sp ev).stored.get i = some v ∧ (stepTxn sp ev).val i = some v := by
  have hst : (stepTxn sp ev).stored.get i = some v := by
    rw [stepTxn_stored_holdz h, hf, hs, hv]
  exact ⟨hst, val_stored hst⟩

/-- the same, stated on the source stream: `s` does not fire -/
theorem holdz_resolves_of_source {s c v} (h : sp.getDef i = .holdz s c) (hr : Resolved sp ev i)
    (hs : sp.stored.get i = none) (hf : fire (fireTable sp ev) s = none) (hv : sp.val c = some v) :
    (stepTxn sp ev).stored.get i = some v ∧ (stepTxn sp ev).val i = some v :=
  holdz_resolves h hs (by rw [holdz_fires h hr, hf]) hv

/-- an event wins: if the `holdz` fires `v` in the transaction, `v` is stored (whether or not the Lazy
    was resolved, or could be) -/
theorem holdz_updated {s c v} (h : sp.getDef i = .holdz s c)
    (hf : fire (fireTable sp ev) i = some v) :
    (stepTxn sp ev).stored.get i = some v ∧ (stepTxn sp ev).val i = some v := by
  have hst : (stepTxn sp ev).stored.get i = some v := by
    rw [stepTxn_stored_holdz h, hf]
  exact ⟨hst, val_stored hst⟩

/-- the same, stated on the source stream: `s` fires `v` -/
theorem holdz_updated_of_source {s c v} (h : sp.getDef i = .holdz s c) (hr : Resolved sp ev i)
    (hf : fire (fireTable sp ev) s = some v) :
    (stepTxn sp ev).stored.get i = some v ∧ (stepTxn sp ev).val i = some v :=
  holdz_updated h (by rw [holdz_fires h hr, hf])

/-- once a value is stored it is the value of the `holdz`, whatever `c` is now -/
theorem holdz_sticky {s c w} (_h : sp.getDef i = .holdz s c) (hs : sp.stored.get i = some w) :
    sp.val i = some w :=
  val_stored hs

/-- … and a transaction in which it does not fire keeps it (also when `c` changes in that transaction) -/
theorem holdz_unchanged {s c w} (h : sp.getDef i = .holdz s c) (hs : sp.stored.get i = some w)
    (hf : fire (fireTable sp ev) i = none) :
    (stepTxn sp ev).stored.get i = some w ∧ (stepTxn sp ev).val i = some w := by
  have hst : (stepTxn sp ev).stored.get i = some w := by
    rw [stepTxn_stored_holdz h, hf, hs]
  exact ⟨hst, val_stored hst⟩

/-- while `c` cannot be read and no event arrives, nothing is stored: the Lazy stays unresolved -/
theorem holdz_pending {s c} (h : sp.getDef i = .holdz s c) (hs : sp.stored.get i = none)
    (hf : fire (fireTable sp ev) i = none) (hv : sp.val c = none) :
    (stepTxn sp ev).stored.get i = none := by
  rw [stepTxn_stored_holdz h, hf, hs, hv]

end

/-! ### `resolveLazies` touches the name table only -/

@[simp] theorem resolveLazies_sp (st : St) : (resolveLazies st).sp = st.sp := rfl
@[simp] theorem resolveLazies_lis (st : St) : (resolveLazies st).lis = st.lis := rfl
@[simp] theorem resolveLazies_depth (st : St) : (resolveLazies st).depth = st.depth := rfl
@[simp] theorem resolveLazies_sends (st : St) : (resolveLazies st).sends = st.sends := rfl
@[simp] theorem resolveLazies_posts (st : St) : (resolveLazies st).posts = st.posts := rfl
@[simp] theorem resolveLazies_txOpen (st : St) : (resolveLazies st).txOpen = st.txOpen := rfl
@[simp] theorem resolveLazies_dead (st : St) : (resolveLazies st).dead = st.dead := rfl

/-- the transaction run by `closeTxn` is the one of the state before `resolveLazies` -/
theorem runOne_resolveLazies (st : St) :
    (runOne (resolveLazies st) (resolveLazies st).sends []).2 =
      (runOne st st.sends []).2 := rfl

/-! ### concrete programs: the theorems are not vacuous -/

/-- `0 = cloop` (open), `1 = sink`, `2 = 1.hold_lazy(lazy of 0)`, `3 = csink 5`, `4 = mapc 2` -/
def demoZ : Spec :=
  { defs := #[.cloop, .sink none, .holdz 1 0, .csink 5, .mapc 2 1],
    created := #[0, 0, 0, 0, 0] }

/-- the same program after `0.loop(3)` -/
def demoZ' : Spec := { demoZ with loopTo := Store.empty.set 0 (some 3) }

def demoZRank : Nat → Nat
  | 1 | 3 => 0
  | 0 => 1
  | 2 => 2
  | _ => 3

set_option maxRecDepth 8192 in
theorem demoZ'_wf : WellFormed demoZ' demoZRank := ⟨⟨by decide, by decide, by decide⟩, by decide, by decide⟩

set_option maxRecDepth 8192 in
/-- before the loop is closed nothing can be read, and a transaction leaves the Lazy unresolved;
    after `loop` the hypotheses of `holdz_resolves` hold with `v = 5`, and its conclusion, computed -/
example :
    demoZ.val 0 = none ∧ demoZ.val 2 = none ∧ (stepTxn demoZ []).stored.get 2 = none ∧
    demoZ'.getDef 2 = .holdz 1 0 ∧ demoZ'.stored.get 2 = none ∧
    fire (fireTable demoZ' []) 2 = none ∧ demoZ'.val 0 = some 5 ∧
    (stepTxn demoZ' []).stored.get 2 = some 5 ∧ (stepTxn demoZ' []).val 2 = some 5 ∧
    (stepTxn demoZ' []).val 4 = some (f1 1 5) := by decide

set_option maxRecDepth 8192 in
/-- the value taken is the one `c` had at the START of the transaction: `3` (hence `0`) is sent `9` in the
    very transaction that resolves the Lazy; afterwards `0` is `9` and the `holdz` is `5`, and stays `5`;
    an event on `1` then replaces it (`holdz_updated`) -/
example :
    fire (fireTable demoZ' [(3, 9)]) 0 = some 9 ∧ fire (fireTable demoZ' [(3, 9)]) 2 = none ∧
    (stepTxn demoZ' [(3, 9)]).val 0 = some 9 ∧ (stepTxn demoZ' [(3, 9)]).val 2 = some 5 ∧
    (stepTxn (stepTxn demoZ' [(3, 9)]) [(3, 11)]).val 2 = some 5 ∧
    (stepTxn (stepTxn demoZ' [(3, 9)]) [(1, 7)]).val 2 = some 7 ∧
    (stepTxn demoZ' [(1, 7)]).val 2 = some 7 := by decide

set_option maxRecDepth 8192 in
/-- the instance of `holdz_resolves` itself -/
example : (stepTxn demoZ' [(3, 9)]).stored.get 2 = some 5 ∧ (stepTxn demoZ' [(3, 9)]).val 2 = some 5 :=
  holdz_resolves (s := 1) (c := 0) (by decide) (by decide) (by decide) (by decide)

/-- for every transaction: the general cell theorem (`val_stepTxn_cell`) covers `holdz` too -/
example (ev : Events) : (stepTxn demoZ' ev).val 2 = nextVal demoZ' ev 2 :=
  val_stepTxn_cell demoZ'_wf ev 2 (by decide)

end Spec
end SodiumVerif
