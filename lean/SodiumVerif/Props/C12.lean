/-
  C12 — deferred work (`post` closures: `defer`, `split`, `SodiumCtx::post`) runs after the
  transaction, once, in order, on committed state.  Property theorems about M_txn
  (`Model/Txn.lean`) and the obligations tying its constants to the current source.
-/
import SodiumVerif.Model.Txn
import SodiumVerif.Gen.Facts
import SodiumVerif.Lemmas.TxnBasic

namespace SodiumVerif
namespace Txn

variable {α : Type}

/-- C12.6 — the log of an outermost close: first the `pre_eot` closures, then the `pre_post`
    closures (those queued before and those pushed by the propagation), then `rest` = the traces of
    the `post` closures (queued before, then pushed by the propagation) one after the other; in
    particular the `post` queue occurs in `rest` in FIFO order (as a sublist). -/
theorem log_of_close (q : α → Queue) (body : α → List α) (rank : α → Nat)
    (hbody : ∀ a, ∀ b ∈ body a, rank b < rank a) (fuel : Nat) (upd : List α) (c : Ctx α)
    (hd : c.depth = 1) (hupd : ∀ a ∈ upd, q a ≠ .preEot)
    (hfuel : ∀ a ∈ c.post ++ onQ q .post upd, rank a < fuel) :
    ∃ rest, (leave q body upd (fuel + 1) c).log
        = c.log ++ c.preEot ++ (c.prePost ++ onQ q .prePost upd) ++ rest ∧
      rest = (c.post ++ onQ q .post upd).flatMap (trace q body fuel) ∧
      (c.post ++ onQ q .post upd).Sublist rest := by
  refine ⟨_, ?_, rfl, sublist_flatMap_trace q body fuel _⟩
  rw [leave_closed q body rank hbody fuel upd c hd (onQ_eq_nil_of_forall_ne hupd) hfuel]
  rfl

example := log_of_close Act.queue exBody exRank exBody_wf 2 exUpd exCtx rfl (by decide) (by decide)

example : (leave Act.queue exBody exUpd 3 exCtx).log
    = [] ++ [.catchUpHold 3] ++ ([.commitHold 7] ++ [.clearFiring 0, .onceDetach 4])
      ++ [.deferredSend 1 5, .clearFiring 1, .commitHold 2, .userPost 9] := by decide

/-- C12.6, simple form — when the bodies of the queued post closures push no further post closure
    (and the `post` queue holds post closures only), `rest` is each post closure followed by the
    `pre_eot` and `pre_post` closures of its nested transaction, and `rest` filtered to the post
    closures is exactly the `post` queue: each ran once, in FIFO order. -/
theorem log_of_close_flat (q : α → Queue) (body : α → List α) (rank : α → Nat)
    (hbody : ∀ a, ∀ b ∈ body a, rank b < rank a) (fuel : Nat) (upd : List α) (c : Ctx α)
    (hd : c.depth = 1) (hupd : ∀ a ∈ upd, q a ≠ .preEot)
    (hfuel : ∀ a ∈ c.post ++ onQ q .post upd, rank a < fuel)
    (htyped : ∀ a ∈ c.post, q a = .post)
    (hflat : ∀ a ∈ c.post ++ onQ q .post upd, ∀ b ∈ body a, q b ≠ .post) :
    ∃ rest, (leave q body upd (fuel + 1) c).log
        = c.log ++ c.preEot ++ (c.prePost ++ onQ q .prePost upd) ++ rest ∧
      rest = (c.post ++ onQ q .post upd).flatMap
        (fun a => a :: (onQ q .preEot (body a) ++ onQ q .prePost (body a))) ∧
      onQ q .post rest = c.post ++ onQ q .post upd := by
  obtain ⟨rest, h1, h2, _⟩ := log_of_close q body rank hbody fuel upd c hd hupd hfuel
  have hpos : c.post ++ onQ q .post upd ≠ [] → 0 < fuel := by
    intro hne
    cases h : c.post ++ onQ q .post upd with
    | nil => exact absurd h hne
    | cons a l => have := hfuel a (by rw [h]; exact List.mem_cons_self); omega
  have h3 := flatMap_trace_flat q body fuel _ hpos
    (fun a ha => onQ_eq_nil_of_forall_ne (hflat a ha))
  refine ⟨rest, h1, h2.trans h3, ?_⟩
  rw [h2, h3]
  apply onQ_post_flatMap_flat
  intro a ha
  rcases List.mem_append.mp ha with ha | ha
  · exact htyped a ha
  · exact (mem_onQ.mp ha).2

example := log_of_close_flat Act.queue exBody exRank exBody_wf 2 exUpd exCtx rfl (by decide)
  (by decide) (by decide) (by decide)

example : onQ Act.queue .post ((leave Act.queue exBody exUpd 3 exCtx).log)
    = [.deferredSend 1 5, .userPost 9] := by decide

/-- C12.7, generic form — in the log of an outermost close every closure of the `pre_post` queue
    (queued before or pushed by the propagation) precedes every closure of the `post` queue. -/
theorem prePost_before_post (q : α → Queue) (body : α → List α) (rank : α → Nat)
    (hbody : ∀ a, ∀ b ∈ body a, rank b < rank a) (fuel : Nat) (upd : List α) (c : Ctx α)
    (hd : c.depth = 1) (hupd : ∀ a ∈ upd, q a ≠ .preEot)
    (hfuel : ∀ a ∈ c.post ++ onQ q .post upd, rank a < fuel)
    (x y : α) (hx : x ∈ c.prePost ++ onQ q .prePost upd) (hy : y ∈ c.post ++ onQ q .post upd) :
    ∃ l₁ l₂ l₃, (leave q body upd (fuel + 1) c).log = c.log ++ l₁ ++ x :: l₂ ++ y :: l₃ := by
  obtain ⟨rest, h1, _, h3⟩ := log_of_close q body rank hbody fuel upd c hd hupd hfuel
  obtain ⟨p₁, p₂, hp⟩ := List.append_of_mem hx
  obtain ⟨r₁, r₂, hr⟩ := List.append_of_mem (h3.subset hy)
  refine ⟨c.preEot ++ p₁, p₂ ++ r₁, r₂, ?_⟩
  rw [h1, hp, hr]
  simp [List.append_assoc]

/-- closures that commit or clean up state at the end of a transaction -/
def Act.isCommit : Act → Bool
  | .commitHold _ | .onceDetach _ | .clearFiring _ => true
  | _ => false

/-- deferred work -/
def Act.isDeferred : Act → Bool
  | .deferredSend .. | .userPost _ => true
  | _ => false

theorem Act.queue_of_isCommit {x : Act} (h : x.isCommit = true) : x.queue = .prePost := by
  cases x <;> first | rfl | simp [Act.isCommit] at h

theorem Act.queue_of_isDeferred {x : Act} (h : x.isDeferred = true) : x.queue = .post := by
  cases x <;> first | rfl | simp [Act.isDeferred] at h

/-- C12.7 — with the library's closure vocabulary: a transaction on a quiescent context that pushes
    `acts` and whose propagation pushes `upd` logs `pre ++ pp ++ rest` where every
    `commitHold` / `onceDetach` / `clearFiring` queued in this transaction (before or during the
    propagation) is in `pp`, every `deferredSend` / `userPost` is in `rest`, and no deferred closure
    runs in `pre ++ pp`: deferred work sees committed holds, detached `once`s and cleared firing
    slots.  (This is why holds commit, `once` detaches and `_send` clears in `pre_post`.) -/
theorem commit_before_deferred (body : Act → List Act) (rank : Act → Nat)
    (hbody : ∀ a, ∀ b ∈ body a, rank b < rank a) (fuel : Nat) (upd acts : List Act) (c : Ctx Act)
    (hc : quiescent c) (hupd : ∀ a ∈ upd, a.queue ≠ .preEot)
    (hfuel : ∀ a ∈ acts ++ upd, a.queue = .post → rank a < fuel) :
    ∃ pre pp rest, (transaction Act.queue body upd acts (fuel + 1) c).log
        = c.log ++ pre ++ pp ++ rest ∧
      (∀ x ∈ acts ++ upd, x.isCommit = true → x ∈ pp) ∧
      (∀ y ∈ acts ++ upd, y.isDeferred = true → y ∈ rest) ∧
      (∀ z ∈ pre ++ pp, z.isDeferred = false) := by
  obtain ⟨h0, h1, h2, h3, h4⟩ := hc
  have hpost : (acts.foldl (push Act.queue) (enter c)).post = onQ Act.queue .post acts := by
    rw [foldl_push]; simp [enter, h3]
  have hf : ∀ a ∈ (acts.foldl (push Act.queue) (enter c)).post ++ onQ Act.queue .post upd,
      rank a < fuel := by
    rw [hpost]; intro a ha
    rcases List.mem_append.mp ha with ha | ha
    · exact hfuel a (List.mem_append_left _ (mem_onQ.mp ha).1) (mem_onQ.mp ha).2
    · exact hfuel a (List.mem_append_right _ (mem_onQ.mp ha).1) (mem_onQ.mp ha).2
  obtain ⟨rest, e1, _, e3⟩ := log_of_close Act.queue body rank hbody fuel upd
    (acts.foldl (push Act.queue) (enter c)) (by rw [foldl_push]; simp [enter, h0]) hupd hf
  refine ⟨onQ Act.queue .preEot acts, onQ Act.queue .prePost acts ++ onQ Act.queue .prePost upd,
    rest, ?_, ?_, ?_, ?_⟩
  · rw [transaction, e1, foldl_push]; simp [enter, h1, h2]
  · intro x hx hxc
    rw [← onQ_append]
    exact mem_onQ.mpr ⟨hx, Act.queue_of_isCommit hxc⟩
  · intro y hy hyd
    apply e3.subset
    rw [hpost, ← onQ_append]
    exact mem_onQ.mpr ⟨hy, Act.queue_of_isDeferred hyd⟩
  · intro z hz
    rw [← onQ_append] at hz
    rcases List.mem_append.mp hz with hz | hz
    · have := (mem_onQ.mp hz).2
      cases z <;> first | rfl | simp [Act.queue] at this
    · have := (mem_onQ.mp hz).2
      cases z <;> first | rfl | simp [Act.queue] at this

/-- C12.7, positions — every commit-like closure queued in the transaction occurs, in the segment of
    the log written by this transaction, before every deferred closure queued in it. -/
theorem commit_precedes_deferred (body : Act → List Act) (rank : Act → Nat)
    (hbody : ∀ a, ∀ b ∈ body a, rank b < rank a) (fuel : Nat) (upd acts : List Act) (c : Ctx Act)
    (hc : quiescent c) (hupd : ∀ a ∈ upd, a.queue ≠ .preEot)
    (hfuel : ∀ a ∈ acts ++ upd, a.queue = .post → rank a < fuel)
    (x y : Act) (hx : x ∈ acts ++ upd) (hxc : x.isCommit = true)
    (hy : y ∈ acts ++ upd) (hyd : y.isDeferred = true) :
    ∃ l₁ l₂ l₃, (transaction Act.queue body upd acts (fuel + 1) c).log
        = c.log ++ l₁ ++ x :: l₂ ++ y :: l₃ := by
  obtain ⟨pre, pp, rest, e, hpp, hrest, _⟩ :=
    commit_before_deferred body rank hbody fuel upd acts c hc hupd hfuel
  obtain ⟨p₁, p₂, hp⟩ := List.append_of_mem (hpp x hx hxc)
  obtain ⟨r₁, r₂, hr⟩ := List.append_of_mem (hrest y hy hyd)
  refine ⟨pre ++ p₁, p₂ ++ r₁, r₂, ?_⟩
  rw [e, hp, hr]
  simp [List.append_assoc]

/-- a transaction that sends on a stream feeding a `defer` (re-emission on sink 1) and a hold 7,
    and detaches a `once`; the user also posts a closure -/
def exActs : List Act := [.deferredSend 1 5, .clearFiring 0, .userPost 9]

example := commit_precedes_deferred exBody exRank exBody_wf 2 [.commitHold 7, .onceDetach 4] exActs
  {} (by decide) (by decide) (by decide) (.commitHold 7) (.deferredSend 1 5) (by decide) rfl
  (by decide) rfl

example : (transaction Act.queue exBody [.commitHold 7, .onceDetach 4] exActs 3 {}).log
    = [.clearFiring 0, .commitHold 7, .onceDetach 4,
       .deferredSend 1 5, .clearFiring 1, .commitHold 2, .userPost 9] := by decide

/-- C12.8 — each post closure gets a complete nested `end_of_transaction` of its own: when the
    bodies of the queued post closures push no further post closure, `end_of_transaction` runs once
    for the outer transaction and exactly once per post closure (in general: at least once per post
    closure, `quiescent_after_close`), while `collect_cycles` is left to the outer one. -/
theorem deferred_own_transaction (q : α → Queue) (body : α → List α) (rank : α → Nat)
    (hbody : ∀ a, ∀ b ∈ body a, rank b < rank a) (fuel : Nat) (upd : List α) (c : Ctx α)
    (hd : c.depth = 1) (hupd : ∀ a ∈ upd, q a ≠ .preEot)
    (hfuel : ∀ a ∈ c.post ++ onQ q .post upd, rank a < fuel)
    (hflat : ∀ a ∈ c.post ++ onQ q .post upd, ∀ b ∈ body a, q b ≠ .post) :
    (leave q body upd (fuel + 1) c).eots = c.eots + 1 + (c.post ++ onQ q .post upd).length ∧
    (leave q body upd (fuel + 1) c).collects = c.collects + (if c.allow = 0 then 1 else 0) := by
  rw [leave_closed q body rank hbody fuel upd c hd (onQ_eq_nil_of_forall_ne hupd) hfuel]
  constructor
  · simp only [closed]
    rw [sum_cnt_flat q body fuel _ (fun a ha => onQ_eq_nil_of_forall_ne (hflat a ha))]
  · simp only [closed]; split <;> rfl

example := deferred_own_transaction Act.queue exBody exRank exBody_wf 2 exUpd exCtx rfl
  (by decide) (by decide) (by decide)

example : (leave Act.queue exBody exUpd 3 exCtx).eots = 0 + 1 + 2 := by decide

/-- C12.8 (`deferred_fifo`) — the nested transaction of a post closure `a` is complete before the
    next post closure of the outer queue runs: `a`, the `pre_eot` closures its body pushed, the
    `pre_post` closures its body pushed, the nested transactions of the post closures its body
    pushed, and only then the closures `p₂` queued after `a` (each of them, in order). -/
theorem deferred_fifo (q : α → Queue) (body : α → List α) (rank : α → Nat)
    (hbody : ∀ a, ∀ b ∈ body a, rank b < rank a) (fuel : Nat) (upd : List α) (c : Ctx α)
    (hd : c.depth = 1) (hupd : ∀ a ∈ upd, q a ≠ .preEot)
    (hfuel : ∀ a ∈ c.post ++ onQ q .post upd, rank a < fuel)
    (p₁ p₂ : List α) (a : α) (hsplit : c.post ++ onQ q .post upd = p₁ ++ a :: p₂) :
    ∃ before after, (leave q body upd (fuel + 1) c).log
        = before ++ a :: (onQ q .preEot (body a) ++ onQ q .prePost (body a)
            ++ (onQ q .post (body a)).flatMap (trace q body (fuel - 1))) ++ after ∧
      before = c.log ++ c.preEot ++ (c.prePost ++ onQ q .prePost upd)
                ++ p₁.flatMap (trace q body fuel) ∧
      after = p₂.flatMap (trace q body fuel) ∧ p₂.Sublist after := by
  refine ⟨_, _, ?_, rfl, rfl, sublist_flatMap_trace q body fuel p₂⟩
  rw [leave_closed q body rank hbody fuel upd c hd (onQ_eq_nil_of_forall_ne hupd) hfuel]
  have ha : rank a < fuel := hfuel a (by rw [hsplit]; simp)
  obtain ⟨f, rfl⟩ : ∃ f, fuel = f + 1 := ⟨fuel - 1, by omega⟩
  simp only [closed, hsplit, List.flatMap_append, List.flatMap_cons, trace_succ,
    Nat.add_sub_cancel, List.append_assoc, List.cons_append]

example := deferred_fifo Act.queue exBody exRank exBody_wf 2 exUpd exCtx rfl (by decide) (by decide)
  [] [.userPost 9] (.deferredSend 1 5) (by decide)

/-- C12.9 — `post` on an idle context: the transaction opened around the push closes at once, so the
    closure has run when the call returns, followed by the closures of its body in phase order. -/
theorem post_immediate_when_idle (q : α → Queue) (body : α → List α) (rank : α → Nat)
    (hbody : ∀ a, ∀ b ∈ body a, rank b < rank a) (fuel : Nat) (c : Ctx α) (a : α)
    (hc : quiescent c) (hq : q a = .post) (hfuel : rank a ≤ fuel) :
    (transaction q body [] [a] (fuel + 2) c).log
      = c.log ++ [a] ++ onQ q .preEot (body a) ++ onQ q .prePost (body a)
          ++ (onQ q .post (body a)).flatMap (trace q body fuel) ∧
    a ∈ (transaction q body [] [a] (fuel + 2) c).log ∧
    quiescent (transaction q body [] [a] (fuel + 2) c) := by
  obtain ⟨h0, h1, h2, h3, h4⟩ := hc
  have hcl : transaction q body [] [a] (fuel + 2) c
      = closed q body [] (fuel + 1) ([a].foldl (push q) (enter c)) := by
    rw [transaction]
    apply leave_closed q body rank hbody
    · rw [foldl_push]; simp [enter, h0]
    · rfl
    · rw [foldl_push]; intro b hb
      simp [enter, h3, onQ_cons, hq] at hb
      subst hb; omega
  have hlog : (transaction q body [] [a] (fuel + 2) c).log
      = c.log ++ [a] ++ onQ q .preEot (body a) ++ onQ q .prePost (body a)
          ++ (onQ q .post (body a)).flatMap (trace q body fuel) := by
    rw [hcl, foldl_push]
    simp [closed, enter, h1, h2, h3, onQ_cons, hq, trace_succ, List.append_assoc]
  refine ⟨hlog, ?_, ?_⟩
  · rw [hlog]; simp
  · rw [hcl, foldl_push]; simp [quiescent, closed, enter, h4]

example := post_immediate_when_idle Act.queue exBody exRank exBody_wf 1 {} (.deferredSend 1 5)
  (by decide) rfl (by decide)

example : (transaction Act.queue exBody [] [.deferredSend 1 5] 3 {}).log
    = [.deferredSend 1 5, .clearFiring 1, .commitHold 2] := by decide

/-! ### obligations tying the model's constants to the current source (`Gen/Facts.lean`) -/

/-- the phase order of `end_of_transaction` in the source is the model's -/
theorem phases_match : Facts.eotPhases = Txn.phases := rfl

/-- holds commit in `pre_post`, and the model queues `commitHold` there -/
theorem hold_commit_queue :
    Facts.holdCommitQueue = "pre_post" ∧ ∀ c, (Act.commitHold c).queue = .prePost :=
  ⟨rfl, fun _ => rfl⟩

/-- `once` detaches in `pre_post`, and the model queues `onceDetach` there -/
theorem once_detach_queue :
    Facts.onceDetachQueue = "pre_post" ∧ ∀ n, (Act.onceDetach n).queue = .prePost :=
  ⟨rfl, fun _ => rfl⟩

/-- `_send` clears the firing slot in `pre_post`, and the model queues `clearFiring` there -/
theorem send_clear_queue :
    Facts.sendClearQueue = "pre_post" ∧ ∀ n, (Act.clearFiring n).queue = .prePost :=
  ⟨rfl, fun _ => rfl⟩

/-- `defer` and `split` re-emit from `post`, and the model queues `deferredSend` there -/
theorem defer_queue :
    (Facts.deferQueue = "post" ∧ Facts.splitQueue = "post") ∧
      ∀ s v, (Act.deferredSend s v).queue = .post :=
  ⟨⟨rfl, rfl⟩, fun _ _ => rfl⟩

/-- the public `SodiumCtx::post` opens a transaction around its push (so a `userPost` is always
    pushed at depth ≥ 1, cf. `wellBracketed` and `post_immediate_when_idle`) -/
theorem public_post_opens_transaction : Facts.publicPostOpensTransaction = true := rfl

end Txn
end SodiumVerif
