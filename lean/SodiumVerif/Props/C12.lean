/-
  C12 — deferred work (`post` closures: `defer`, `split`, `SodiumCtx::post`) runs after the
  transaction, once, in order, on committed state.  Property theorems about M_txn
  (`Model/Txn.lean`) and the obligations tying its constants to the current source.
-/
import SodiumVerif.Model.Txn
import SodiumVerif.Gen.Facts
import SodiumVerif.Lemmas.TxnBasic

namespace SodiumVerif
namespace Txn

variable {α : Type}

/-- C12.6 — the log of an outermost close, for every propagation `upd`: first the `pre_eot`
    closures (`preEotPart`: the queue drained until it is empty — closures pushed onto it by the
    running ones included —, then the `pre_eot` closures pushed by the propagation, drained the same
    way), then the `pre_post` closures (`prePostPart`: those queued before, those pushed by the
    drains and by the propagation), then `rest` = the traces of the `post` closures (`postPart`:
    queued before, pushed by the drains and by the propagation) one after the other; in particular
    the `post` queue occurs in `rest` in FIFO order (as a sublist). -/
theorem log_of_close (q : α → Queue) (body : α → List α) (rank : α → Nat)
    (hbody : ∀ a, ∀ b ∈ body a, rank b < rank a) (fuel : Nat) (upd : List α) (c : Ctx α)
    (hd : c.depth = 1)
    (hfuelPre : ∀ a ∈ c.preEot ++ onQ q .preEot upd, rank a < fuel)
    (hfuel : ∀ a ∈ c.post ++ onQ q .post upd, rank a < fuel) :
    ∃ rest, (leave q body upd (fuel + 1) c).log
        = c.log ++ preEotPart q body upd fuel c ++ prePostPart q body upd fuel c ++ rest ∧
      rest = (postPart q body upd fuel c).flatMap (trace q body fuel) ∧
      (postPart q body upd fuel c).Sublist rest := by
  refine ⟨_, ?_, rfl, sublist_flatMap_trace q body fuel _⟩
  rw [leave_closed q body rank hbody fuel upd c hd hfuelPre hfuel]
  rfl

/-- the three parts contain, in order, what was queued before the close and what the propagation
    pushed: `c.preEot ++ onQ q .preEot upd`, `c.prePost ++ onQ q .prePost upd`,
    `c.post ++ onQ q .post upd` -/
theorem close_parts_contain_queues (q : α → Queue) (body : α → List α) (fuel : Nat) (upd : List α)
    (c : Ctx α) :
    (c.preEot ++ onQ q .preEot upd).Sublist (preEotPart q body upd fuel c) ∧
    (c.prePost ++ onQ q .prePost upd).Sublist (prePostPart q body upd fuel c) ∧
    (c.post ++ onQ q .post upd).Sublist (postPart q body upd fuel c) :=
  ⟨sublist_preEotPart q body upd fuel c, sublist_prePostPart q body upd fuel c,
    sublist_postPart q body upd fuel c⟩

/-- C12.6 when the `pre_eot` closures push nothing: the three parts are exactly the queues; the
    `pre_eot` closures pushed by the propagation run after the queued ones, before `pre_post` -/
theorem log_of_close_inert (q : α → Queue) (body : α → List α) (rank : α → Nat)
    (hbody : ∀ a, ∀ b ∈ body a, rank b < rank a) (fuel : Nat) (upd : List α) (c : Ctx α)
    (hd : c.depth = 1) (hpre : ∀ a, q a = .preEot → body a = [])
    (hfuelPre : ∀ a ∈ c.preEot ++ onQ q .preEot upd, rank a < fuel)
    (hfuel : ∀ a ∈ c.post ++ onQ q .post upd, rank a < fuel) :
    ∃ rest, (leave q body upd (fuel + 1) c).log
        = c.log ++ (c.preEot ++ onQ q .preEot upd) ++ (c.prePost ++ onQ q .prePost upd) ++ rest ∧
      rest = (c.post ++ onQ q .post upd).flatMap (trace q body fuel) ∧
      (c.post ++ onQ q .post upd).Sublist rest := by
  refine ⟨_, ?_, rfl, sublist_flatMap_trace q body fuel _⟩
  rw [leave_closed q body rank hbody fuel upd c hd hfuelPre hfuel, closed_inert q body hpre]

example := log_of_close Act.queue exBody exRank exBody_wf 2 exUpd exCtx rfl (by decide) (by decide)

example : (leave Act.queue exBody exUpd 3 exCtx).log
    = [] ++ [.catchUpHold 3] ++ ([.commitHold 7] ++ [.clearFiring 0, .onceDetach 4])
      ++ [.deferredSend 1 5, .clearFiring 1, .commitHold 2, .userPost 9] := by decide

/-- a `pre_eot` closure pushed by the propagation (`catchUpHold 7` in `exUpdPre`) is logged after the
    queued `pre_eot` closures and before the `pre_post` closures -/
example := log_of_close_inert Act.queue exBody exRank exBody_wf 2 exUpdPre exCtx rfl
  (by intro a h; unfold exBody; split <;> simp_all [Act.queue]) (by decide) (by decide)

example : (leave Act.queue exBody exUpdPre 3 exCtx).log
    = [] ++ [.catchUpHold 3, .catchUpHold 7] ++ ([.commitHold 7] ++ [.clearFiring 0, .onceDetach 4])
      ++ [.deferredSend 1 5, .clearFiring 1, .commitHold 2, .userPost 9] := by decide

/-- `pre_eot` closures that push: `switchInit 2` pushes `switchInit 3` (run in the next round of the
    drain) and a `pre_post` closure; `switchInit 3` pushes a post closure and a `pre_post` closure -/
example := log_of_close Act.queue exBodyPre exRankPre exBodyPre_wf 4 exUpdPre
  { exCtx with preEot := [.switchInit 2] } rfl (by decide) (by decide)

example : (leave Act.queue exBodyPre exUpdPre 5 { exCtx with preEot := [.switchInit 2] }).log
    = [] ++ [.switchInit 2, .switchInit 3, .catchUpHold 7]
      ++ ([.commitHold 7] ++ [.resetVisited 2, .resetVisited 3, .clearFiring 0, .onceDetach 4])
      ++ [.deferredSend 1 5, .clearFiring 1, .commitHold 2, .userPost 6, .userPost 9]
    ∧ quiescent (leave Act.queue exBodyPre exUpdPre 5 { exCtx with preEot := [.switchInit 2] }) := by
  decide

/-- C12.6, simple form — when the nested transactions of the queued post closures queue no further
    post closure (neither the closure nor the `pre_eot` closures run at its close push one; and the
    `post` queue holds post closures only), `rest` is each post closure followed by the `pre_eot`
    and `pre_post` closures of its nested transaction, and `rest` filtered to the post closures is
    exactly the `post` queue: each ran once, in FIFO order. -/
theorem log_of_close_flat (q : α → Queue) (body : α → List α) (rank : α → Nat)
    (hbody : ∀ a, ∀ b ∈ body a, rank b < rank a) (fuel : Nat) (upd : List α) (c : Ctx α)
    (hd : c.depth = 1)
    (hfuelPre : ∀ a ∈ c.preEot ++ onQ q .preEot upd, rank a < fuel)
    (hfuel : ∀ a ∈ c.post ++ onQ q .post upd, rank a < fuel)
    (htyped : ∀ a ∈ c.post, q a = .post)
    (hflat : ∀ a ∈ postPart q body upd fuel c, ∀ b ∈ nested q body (fuel - 1) a, q b ≠ .post) :
    ∃ rest, (leave q body upd (fuel + 1) c).log
        = c.log ++ preEotPart q body upd fuel c ++ prePostPart q body upd fuel c ++ rest ∧
      rest = (postPart q body upd fuel c).flatMap
        (fun a => a :: (preLog q body (fuel - 1) (onQ q .preEot (body a))
                          ++ onQ q .prePost (nested q body (fuel - 1) a))) ∧
      onQ q .post rest = postPart q body upd fuel c := by
  obtain ⟨rest, h1, h2, _⟩ := log_of_close q body rank hbody fuel upd c hd hfuelPre hfuel
  have hpo := rank_postPart_lt q body rank hbody fuel upd c hfuelPre hfuel
  have hpos : postPart q body upd fuel c ≠ [] → 0 < fuel := by
    intro hne
    cases h : postPart q body upd fuel c with
    | nil => exact absurd h hne
    | cons a l => have := hpo a (by rw [h]; exact List.mem_cons_self); omega
  have h3 := flatMap_trace_flat q body fuel _ hpos
    (fun a ha => onQ_eq_nil_of_forall_ne (hflat a ha))
  refine ⟨rest, h1, h2.trans h3, ?_⟩
  rw [h2, h3]
  apply onQ_post_flatMap_flat
  intro a ha
  rcases List.mem_append.mp ha with ha | ha
  · exact htyped a ha
  · exact (mem_onQ.mp ha).2

example := log_of_close_flat Act.queue exBody exRank exBody_wf 2 exUpd exCtx rfl (by decide)
  (by decide) (by decide) (by decide)

example : onQ Act.queue .post ((leave Act.queue exBody exUpd 3 exCtx).log)
    = [.deferredSend 1 5, .userPost 9] := by decide

/-- C12.7, generic form — in the log of an outermost close every closure of the `pre_post` queue
    (queued before, pushed by the `pre_eot` drains or pushed by the propagation) precedes every
    closure of the `post` queue; by `close_parts_contain_queues` this covers every
    `x ∈ c.prePost ++ onQ q .prePost upd` and `y ∈ c.post ++ onQ q .post upd`. -/
theorem prePost_before_post (q : α → Queue) (body : α → List α) (rank : α → Nat)
    (hbody : ∀ a, ∀ b ∈ body a, rank b < rank a) (fuel : Nat) (upd : List α) (c : Ctx α)
    (hd : c.depth = 1)
    (hfuelPre : ∀ a ∈ c.preEot ++ onQ q .preEot upd, rank a < fuel)
    (hfuel : ∀ a ∈ c.post ++ onQ q .post upd, rank a < fuel)
    (x y : α) (hx : x ∈ prePostPart q body upd fuel c) (hy : y ∈ postPart q body upd fuel c) :
    ∃ l₁ l₂ l₃, (leave q body upd (fuel + 1) c).log = c.log ++ l₁ ++ x :: l₂ ++ y :: l₃ := by
  obtain ⟨rest, h1, _, h3⟩ := log_of_close q body rank hbody fuel upd c hd hfuelPre hfuel
  obtain ⟨p₁, p₂, hp⟩ := List.append_of_mem hx
  obtain ⟨r₁, r₂, hr⟩ := List.append_of_mem (h3.subset hy)
  refine ⟨preEotPart q body upd fuel c ++ p₁, p₂ ++ r₁, r₂, ?_⟩
  rw [h1, hp, hr]
  simp [List.append_assoc]

/-- closures that commit or clean up state at the end of a transaction -/
def Act.isCommit : Act → Bool
  | .commitHold _ | .onceDetach _ | .clearFiring _ => true
  | _ => false

/-- deferred work -/
def Act.isDeferred : Act → Bool
  | .deferredSend .. | .userPost _ => true
  | _ => false

theorem Act.queue_of_isCommit {x : Act} (h : x.isCommit = true) : x.queue = .prePost := by
  cases x <;> first | rfl | simp [Act.isCommit] at h

theorem Act.queue_of_isDeferred {x : Act} (h : x.isDeferred = true) : x.queue = .post := by
  cases x <;> first | rfl | simp [Act.isDeferred] at h

/-- C12.7 — with the library's closure vocabulary: a transaction on a quiescent context that pushes
    `acts` and whose propagation pushes `upd` (whatever it pushes) logs `pre ++ pp ++ rest` where
    every `commitHold` / `onceDetach` / `clearFiring` queued in this transaction (before or during
    the propagation) is in `pp`, every `deferredSend` / `userPost` is in `rest`, and no deferred
    closure runs in `pre ++ pp`: deferred work sees committed holds, detached `once`s and cleared
    firing slots.  (This is why holds commit, `once` detaches and `_send` clears in `pre_post`.) -/
theorem commit_before_deferred (body : Act → List Act) (rank : Act → Nat)
    (hbody : ∀ a, ∀ b ∈ body a, rank b < rank a) (fuel : Nat) (upd acts : List Act) (c : Ctx Act)
    (hc : quiescent c)
    (hfuel : ∀ a ∈ acts ++ upd, a.queue ≠ .prePost → rank a < fuel) :
    ∃ pre pp rest, (transaction Act.queue body upd acts (fuel + 1) c).log
        = c.log ++ pre ++ pp ++ rest ∧
      (∀ x ∈ acts ++ upd, x.isCommit = true → x ∈ pp) ∧
      (∀ y ∈ acts ++ upd, y.isDeferred = true → y ∈ rest) ∧
      (∀ z ∈ pre ++ pp, z.isDeferred = false) := by
  obtain ⟨h0, h1, h2, h3, h4⟩ := hc
  have hlog : (acts.foldl (push Act.queue) (enter c)).log = c.log := by rw [foldl_push]; rfl
  have hdep : (acts.foldl (push Act.queue) (enter c)).depth = 1 := by
    rw [foldl_push]; simp [enter, h0]
  have hpreq : (acts.foldl (push Act.queue) (enter c)).preEot = onQ Act.queue .preEot acts := by
    rw [foldl_push]; simp [enter, h1]
  have hprepost : (acts.foldl (push Act.queue) (enter c)).prePost
      = onQ Act.queue .prePost acts := by
    rw [foldl_push]; simp [enter, h2]
  have hpost : (acts.foldl (push Act.queue) (enter c)).post = onQ Act.queue .post acts := by
    rw [foldl_push]; simp [enter, h3]
  unfold transaction
  generalize acts.foldl (push Act.queue) (enter c) = d at hlog hdep hpreq hprepost hpost ⊢
  have hfp : ∀ a ∈ d.preEot ++ onQ Act.queue .preEot upd, rank a < fuel := by
    rw [hpreq]; intro a ha
    rcases List.mem_append.mp ha with ha | ha
    · exact hfuel a (List.mem_append_left _ (mem_onQ.mp ha).1) (by rw [(mem_onQ.mp ha).2]; decide)
    · exact hfuel a (List.mem_append_right _ (mem_onQ.mp ha).1) (by rw [(mem_onQ.mp ha).2]; decide)
  have hf : ∀ a ∈ d.post ++ onQ Act.queue .post upd, rank a < fuel := by
    rw [hpost]; intro a ha
    rcases List.mem_append.mp ha with ha | ha
    · exact hfuel a (List.mem_append_left _ (mem_onQ.mp ha).1) (by rw [(mem_onQ.mp ha).2]; decide)
    · exact hfuel a (List.mem_append_right _ (mem_onQ.mp ha).1) (by rw [(mem_onQ.mp ha).2]; decide)
  obtain ⟨rest, e1, _, e3⟩ := log_of_close Act.queue body rank hbody fuel upd d hdep hfp hf
  refine ⟨preEotPart Act.queue body upd fuel d, prePostPart Act.queue body upd fuel d,
    rest, ?_, ?_, ?_, ?_⟩
  · rw [e1, hlog]
  · intro x hx hxc
    apply (sublist_prePostPart Act.queue body upd fuel d).subset
    rw [hprepost, ← onQ_append]
    exact mem_onQ.mpr ⟨hx, Act.queue_of_isCommit hxc⟩
  · intro y hy hyd
    apply e3.subset
    apply (sublist_postPart Act.queue body upd fuel d).subset
    rw [hpost, ← onQ_append]
    exact mem_onQ.mpr ⟨hy, Act.queue_of_isDeferred hyd⟩
  · intro z hz
    have hzq : z.queue = .preEot ∨ z.queue = .prePost := by
      rcases List.mem_append.mp hz with hz | hz
      · rcases queue_of_mem_preEotPart Act.queue body upd fuel d z hz with h | h
        · rw [hpreq] at h; exact Or.inl (mem_onQ.mp h).2
        · exact Or.inl h
      · rcases List.mem_append.mp hz with h | h
        · rw [hprepost] at h; exact Or.inr (mem_onQ.mp h).2
        · exact Or.inr (mem_onQ.mp h).2
    cases z <;> first | rfl | simp [Act.queue] at hzq

/-- C12.7, positions — every commit-like closure queued in the transaction occurs, in the segment of
    the log written by this transaction, before every deferred closure queued in it. -/
theorem commit_precedes_deferred (body : Act → List Act) (rank : Act → Nat)
    (hbody : ∀ a, ∀ b ∈ body a, rank b < rank a) (fuel : Nat) (upd acts : List Act) (c : Ctx Act)
    (hc : quiescent c)
    (hfuel : ∀ a ∈ acts ++ upd, a.queue ≠ .prePost → rank a < fuel)
    (x y : Act) (hx : x ∈ acts ++ upd) (hxc : x.isCommit = true)
    (hy : y ∈ acts ++ upd) (hyd : y.isDeferred = true) :
    ∃ l₁ l₂ l₃, (transaction Act.queue body upd acts (fuel + 1) c).log
        = c.log ++ l₁ ++ x :: l₂ ++ y :: l₃ := by
  obtain ⟨pre, pp, rest, e, hpp, hrest, _⟩ :=
    commit_before_deferred body rank hbody fuel upd acts c hc hfuel
  obtain ⟨p₁, p₂, hp⟩ := List.append_of_mem (hpp x hx hxc)
  obtain ⟨r₁, r₂, hr⟩ := List.append_of_mem (hrest y hy hyd)
  refine ⟨pre ++ p₁, p₂ ++ r₁, r₂, ?_⟩
  rw [e, hp, hr]
  simp [List.append_assoc]

/-- a transaction that sends on a stream feeding a `defer` (re-emission on sink 1) and a hold 7,
    and detaches a `once`; the user also posts a closure -/
def exActs : List Act := [.deferredSend 1 5, .clearFiring 0, .userPost 9]

example := commit_precedes_deferred exBody exRank exBody_wf 2 [.commitHold 7, .onceDetach 4] exActs
  {} (by decide) (by decide) (.commitHold 7) (.deferredSend 1 5) (by decide) rfl
  (by decide) rfl

/-- the same when the propagation also pushes a `pre_eot` closure (a handler builds hold 7) -/
example := commit_precedes_deferred exBody exRank exBody_wf 2
  [.commitHold 7, .catchUpHold 7, .onceDetach 4] exActs
  {} (by decide) (by decide) (.commitHold 7) (.deferredSend 1 5) (by decide) rfl
  (by decide) rfl

example : (transaction Act.queue exBody [.commitHold 7, .catchUpHold 7, .onceDetach 4] exActs 3 {}).log
    = [.catchUpHold 7, .clearFiring 0, .commitHold 7, .onceDetach 4,
       .deferredSend 1 5, .clearFiring 1, .commitHold 2, .userPost 9] := by decide

example : (transaction Act.queue exBody [.commitHold 7, .onceDetach 4] exActs 3 {}).log
    = [.clearFiring 0, .commitHold 7, .onceDetach 4,
       .deferredSend 1 5, .clearFiring 1, .commitHold 2, .userPost 9] := by decide

/-- C12.8 — each post closure gets a complete nested `end_of_transaction` of its own: when the
    nested transactions of the queued post closures queue no further post closure,
    `end_of_transaction` runs once for the outer transaction and exactly once per post closure (in
    general: at least once per post closure, `quiescent_after_close`), while `collect_cycles` is
    left to the outer one. -/
theorem deferred_own_transaction (q : α → Queue) (body : α → List α) (rank : α → Nat)
    (hbody : ∀ a, ∀ b ∈ body a, rank b < rank a) (fuel : Nat) (upd : List α) (c : Ctx α)
    (hd : c.depth = 1)
    (hfuelPre : ∀ a ∈ c.preEot ++ onQ q .preEot upd, rank a < fuel)
    (hfuel : ∀ a ∈ c.post ++ onQ q .post upd, rank a < fuel)
    (hflat : ∀ a ∈ postPart q body upd fuel c, ∀ b ∈ nested q body (fuel - 1) a, q b ≠ .post) :
    (leave q body upd (fuel + 1) c).eots = c.eots + 1 + (postPart q body upd fuel c).length ∧
    (leave q body upd (fuel + 1) c).collects = c.collects + (if c.allow = 0 then 1 else 0) := by
  rw [leave_closed q body rank hbody fuel upd c hd hfuelPre hfuel]
  constructor
  · simp only [closed]
    rw [sum_cnt_flat q body fuel _ (fun a ha => onQ_eq_nil_of_forall_ne (hflat a ha))]
  · simp only [closed]; split <;> rfl

example := deferred_own_transaction Act.queue exBody exRank exBody_wf 2 exUpd exCtx rfl
  (by decide) (by decide) (by decide)

example : (leave Act.queue exBody exUpd 3 exCtx).eots = 0 + 1 + 2 := by decide

example := deferred_own_transaction Act.queue exBody exRank exBody_wf 2 exUpdPre exCtx rfl
  (by decide) (by decide) (by decide)

/-- C12.8 (`deferred_fifo`) — the nested transaction of a post closure `a` is complete before the
    next post closure of the outer queue runs: `a`, the `pre_eot` closures its body pushed (drained
    until the queue is empty), the `pre_post` closures pushed in its nested transaction, the nested
    transactions of the post closures pushed in it, and only then the closures `p₂` queued after `a`
    (each of them, in order). -/
theorem deferred_fifo (q : α → Queue) (body : α → List α) (rank : α → Nat)
    (hbody : ∀ a, ∀ b ∈ body a, rank b < rank a) (fuel : Nat) (upd : List α) (c : Ctx α)
    (hd : c.depth = 1)
    (hfuelPre : ∀ a ∈ c.preEot ++ onQ q .preEot upd, rank a < fuel)
    (hfuel : ∀ a ∈ c.post ++ onQ q .post upd, rank a < fuel)
    (p₁ p₂ : List α) (a : α) (hsplit : postPart q body upd fuel c = p₁ ++ a :: p₂) :
    ∃ before after, (leave q body upd (fuel + 1) c).log
        = before ++ a :: (preLog q body (fuel - 1) (onQ q .preEot (body a))
            ++ onQ q .prePost (nested q body (fuel - 1) a)
            ++ (onQ q .post (nested q body (fuel - 1) a)).flatMap (trace q body (fuel - 1)))
          ++ after ∧
      before = c.log ++ preEotPart q body upd fuel c ++ prePostPart q body upd fuel c
                ++ p₁.flatMap (trace q body fuel) ∧
      after = p₂.flatMap (trace q body fuel) ∧ p₂.Sublist after := by
  refine ⟨_, _, ?_, rfl, rfl, sublist_flatMap_trace q body fuel p₂⟩
  rw [leave_closed q body rank hbody fuel upd c hd hfuelPre hfuel]
  have ha : rank a < fuel :=
    rank_postPart_lt q body rank hbody fuel upd c hfuelPre hfuel a (by rw [hsplit]; simp)
  obtain ⟨f, rfl⟩ : ∃ f, fuel = f + 1 := ⟨fuel - 1, by omega⟩
  simp only [closed, hsplit, List.flatMap_append, List.flatMap_cons, trace_succ,
    Nat.add_sub_cancel, List.append_assoc, List.cons_append]

example := deferred_fifo Act.queue exBody exRank exBody_wf 2 exUpd exCtx rfl (by decide) (by decide)
  [] [.userPost 9] (.deferredSend 1 5) (by decide)

/-- C12.9 — `post` on an idle context: the transaction opened around the push closes at once, so the
    closure has run when the call returns, followed by the closures of its nested transaction in
    phase order (`pre_eot` drained, `pre_post`, the nested transactions of its post closures). -/
theorem post_immediate_when_idle (q : α → Queue) (body : α → List α) (rank : α → Nat)
    (hbody : ∀ a, ∀ b ∈ body a, rank b < rank a) (fuel : Nat) (c : Ctx α) (a : α)
    (hc : quiescent c) (hq : q a = .post) (hfuel : rank a ≤ fuel) :
    (transaction q body [] [a] (fuel + 2) c).log
      = c.log ++ [a] ++ preLog q body fuel (onQ q .preEot (body a))
          ++ onQ q .prePost (nested q body fuel a)
          ++ (onQ q .post (nested q body fuel a)).flatMap (trace q body fuel) ∧
    a ∈ (transaction q body [] [a] (fuel + 2) c).log ∧
    quiescent (transaction q body [] [a] (fuel + 2) c) := by
  obtain ⟨h0, h1, h2, h3, h4⟩ := hc
  have hcl : transaction q body [] [a] (fuel + 2) c
      = closed q body [] (fuel + 1) ([a].foldl (push q) (enter c)) := by
    rw [transaction]
    apply leave_closed q body rank hbody
    · rw [foldl_push]; simp [enter, h0]
    · rw [foldl_push]; intro b hb
      simp [enter, h1, onQ_cons, hq] at hb
    · rw [foldl_push]; intro b hb
      simp [enter, h3, onQ_cons, hq] at hb
      subst hb; omega
  have hlog : (transaction q body [] [a] (fuel + 2) c).log
      = c.log ++ [a] ++ preLog q body fuel (onQ q .preEot (body a))
          ++ onQ q .prePost (nested q body fuel a)
          ++ (onQ q .post (nested q body fuel a)).flatMap (trace q body fuel) := by
    rw [hcl, foldl_push]
    simp [closed, preEotPart, prePostPart, postPart, pushedInClose, enter, h1, h2, h3, onQ_cons, hq,
      trace_succ, List.append_assoc]
  refine ⟨hlog, ?_, ?_⟩
  · rw [hlog]; simp
  · rw [hcl, foldl_push]; simp [quiescent, closed, enter, h4]

example := post_immediate_when_idle Act.queue exBody exRank exBody_wf 1 {} (.deferredSend 1 5)
  (by decide) rfl (by decide)

example : (transaction Act.queue exBody [] [.deferredSend 1 5] 3 {}).log
    = [.deferredSend 1 5, .clearFiring 1, .commitHold 2] := by decide

/-- a posted closure that builds a switch: the set-up of the switch (a `pre_eot` closure of the
    nested transaction, which itself pushes) runs inside the nested transaction, before its
    `pre_post` closures and before the post closure pushed by the set-up -/
example := post_immediate_when_idle Act.queue exBodyPre exRankPre exBodyPre_wf 4 {} (.userPost 8)
  (by decide) rfl (by decide)

example : (transaction Act.queue exBodyPre [] [.userPost 8] 6 {}).log
    = [.userPost 8, .switchInit 5, .commitHold 8, .resetVisited 5, .userPost 6]
    ∧ quiescent (transaction Act.queue exBodyPre [] [.userPost 8] 6 {}) := by decide

/-! ### obligations tying the model's constants to the current source (`Gen/Facts.lean`) -/

/-- the phase order of `end_of_transaction` in the source is the model's -/
theorem phases_match : Facts.eotPhases = Txn.phases := rfl

/-- holds commit in `pre_post`, and the model queues `commitHold` there -/
theorem hold_commit_queue :
    Facts.holdCommitQueue = "pre_post" ∧ ∀ c, (Act.commitHold c).queue = .prePost :=
  ⟨rfl, fun _ => rfl⟩

/-- `once` detaches in `pre_post`, and the model queues `onceDetach` there -/
theorem once_detach_queue :
    Facts.onceDetachQueue = "pre_post" ∧ ∀ n, (Act.onceDetach n).queue = .prePost :=
  ⟨rfl, fun _ => rfl⟩

/-- `_send` clears the firing slot in `pre_post`, and the model queues `clearFiring` there -/
theorem send_clear_queue :
    Facts.sendClearQueue = "pre_post" ∧ ∀ n, (Act.clearFiring n).queue = .prePost :=
  ⟨rfl, fun _ => rfl⟩

/-- `defer` and `split` re-emit from `post`, and the model queues `deferredSend` there -/
theorem defer_queue :
    (Facts.deferQueue = "post" ∧ Facts.splitQueue = "post") ∧
      ∀ s v, (Act.deferredSend s v).queue = .post :=
  ⟨⟨rfl, rfl⟩, fun _ _ => rfl⟩

/-- the public `SodiumCtx::post` opens a transaction around its push (so a `userPost` is always
    pushed at depth ≥ 1, cf. `wellBracketed` and `post_immediate_when_idle`) -/
theorem public_post_opens_transaction : Facts.publicPostOpensTransaction = true := rfl

end Txn
end SodiumVerif
