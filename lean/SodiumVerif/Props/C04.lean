/-
  C04 — cells are delayed state.

  `sp.val i` is the value of cell `i` at the start of the current transaction, `stepTxn sp ev` the
  state after the transaction with injected events `ev`.  A cell changes only at the end of a
  transaction in which its update fires, and then to the fired value.

  Remark (reads inside a transaction see the start value): this is built into S — `fireOf sp ev`
  evaluates every cell through `sp.val` of the *pre-transaction* state `sp` (see `snapshot_fires`,
  `gate_fires` in C02 and `accum_fires` below); nothing computed during the transaction is visible
  through `val` before `stepTxn`.

  The statements below need no global hypothesis on the program.  For well-formed programs the general
  form for *every* kind of cell (derived cells included) is `cell_next_value` in C13.
-/
import SodiumVerif.Lemmas.SpecVal
import SodiumVerif.Props.C02

namespace SodiumVerif
namespace Spec

/-- `0 = sink`, `1 = 0.hold(3)`, `2 = csink 10`, `3 = 0.accum(100, op 1)`, `4 = 0.collect(50, op 1)` -/
def demo4 : Spec :=
  { defs := #[.sink none, .hold 0 3, .csink 10, .accum 0 100 1, .collect 0 50 1],
    created := #[0, 0, 0, 0, 0] }

section
variable {sp : Spec} {ev : Events} {i : Nat}

/-! ### hold -/

/-- `s.hold(k)`: after the transaction the value is the event of `s` if `s` fired, else unchanged -/
theorem val_stepTxn_hold {s k} (h : sp.getDef i = .hold s k) (hr : Resolved sp ev i) :
    (stepTxn sp ev).val i =
      match fire (fireTable sp ev) s with
      | some v => some v
      | none => sp.val i := by
  have hb : (sp.getDef i).init? = some k := by rw [h]; rfl
  have hb' : ((stepTxn sp ev).getDef i).init? = some k := by simpa using hb
  rw [val_base hb', val_base hb, stepTxn_stored_cell (by rw [h]; rfl) (by rw [h]; rfl), hold_fires h hr]
  cases fire (fireTable sp ev) s <;> simp

theorem hold_updated {s k v} (h : sp.getDef i = .hold s k) (hr : Resolved sp ev i)
    (hf : fire (fireTable sp ev) s = some v) : (stepTxn sp ev).val i = some v := by
  rw [val_stepTxn_hold h hr, hf]

theorem hold_unchanged {s k} (h : sp.getDef i = .hold s k) (hr : Resolved sp ev i)
    (hf : fire (fireTable sp ev) s = none) : (stepTxn sp ev).val i = sp.val i := by
  rw [val_stepTxn_hold h hr, hf]

/-- a fresh hold has its initial value -/
theorem hold_initial {s k} (h : sp.getDef i = .hold s k) (hs : sp.stored.get i = none) :
    sp.val i = some k := by
  rw [val_base (k := k) (by rw [h]; rfl), hs]; rfl

set_option maxRecDepth 8192 in
example : demo4.getDef 1 = .hold 0 3 ∧ Resolved demo4 [(0, 7)] 1 ∧
    fire (fireTable demo4 [(0, 7)]) 0 = some 7 ∧ demo4.val 1 = some 3 ∧
    (stepTxn demo4 [(0, 7)]).val 1 = some 7 := by decide

/-! ### cell sink -/

/-- a cell sink is always resolved -/
theorem csink_resolved {k} (h : sp.getDef i = .csink k) : Resolved sp ev i :=
  resolved_leaf sp ev i (getDef_lt sp i (by rw [h]; simp)) (by simp [operands, h])

/-- a `CellSink`: the value sent in the transaction (if any) is the value after it -/
theorem val_stepTxn_csink {k} (h : sp.getDef i = .csink k) :
    (stepTxn sp ev).val i =
      match ev.get i with
      | some v => some v
      | none => sp.val i := by
  have hb : (sp.getDef i).init? = some k := by rw [h]; rfl
  have hb' : ((stepTxn sp ev).getDef i).init? = some k := by simpa using hb
  have hf : fire (fireTable sp ev) i = ev.get i := by
    have := (csink_resolved (ev := ev) h).eqn
    rw [fireOf_csink _ _ _ _ h] at this
    simpa using this.symm
  rw [val_base hb', val_base hb, stepTxn_stored_cell (by rw [h]; rfl) (by rw [h]; rfl), hf]
  cases ev.get i <;> simp

set_option maxRecDepth 8192 in
example : demo4.getDef 2 = .csink 10 ∧ demo4.val 2 = some 10 ∧
    (stepTxn demo4 [(2, 8)]).val 2 = some 8 ∧ (stepTxn demo4 [(0, 8)]).val 2 = some 10 := by decide

/-! ### accum -/

/-- the update of `s.accum(k, f)` fires `f x (value at the start of the transaction)` -/
theorem accum_fires {s k op} (h : sp.getDef i = .accum s k op) (hr : Resolved sp ev i) :
    fire (fireTable sp ev) i =
      (fire (fireTable sp ev) s).bind fun x => (sp.val i).map (f2 op x) :=
  fire_unary (fun look => fireOf_accum sp ev look i h) hr

/-- `s.accum(k, f)`: new value `f x old` when `s` fires `x`, else unchanged -/
theorem val_stepTxn_accum {s k op} (h : sp.getDef i = .accum s k op) (hr : Resolved sp ev i) :
    (stepTxn sp ev).val i =
      match fire (fireTable sp ev) s, sp.val i with
      | some x, some old => some (f2 op x old)
      | _, _ => sp.val i := by
  have hb : (sp.getDef i).init? = some k := by rw [h]; rfl
  have hb' : ((stepTxn sp ev).getDef i).init? = some k := by simpa using hb
  rw [val_base hb', stepTxn_stored_cell (by rw [h]; rfl) (by rw [h]; rfl), accum_fires h hr, val_base hb]
  cases fire (fireTable sp ev) s <;> simp

/-- an accumulator always has a value -/
theorem accum_val_some {s k op} (h : sp.getDef i = .accum s k op) :
    sp.val i = some ((sp.stored.get i).getD k) := val_base (by rw [h]; rfl)

end

/-- the events of sink `s` in the successive transactions `evs` -/
def sinkEvents (evs : List Events) (s : Nat) : List Int := evs.filterMap (·.get s)

/-- **accum_is_foldl**: an accumulator over a sink, after any sequence of transactions, holds the
    left fold of `fun st x => f x st` over the events of the sink, from the value `a` it started with
    (`a = k` for a fresh accumulator, see `accum_is_foldl_fresh`) -/
theorem accum_is_foldl {sp : Spec} {i s : Nat} {k op : Int} {c : Option Int}
    (h : sp.getDef i = .accum s k op) (hs : sp.getDef s = .sink c) (evs : List Events) (a : Int)
    (ha : sp.val i = some a) :
    (run sp evs).val i = some ((sinkEvents evs s).foldl (fun st x => f2 op x st) a) := by
  induction evs generalizing sp a with
  | nil => simpa [sinkEvents] using ha
  | cons ev evs ih =>
    have hi : i < sp.defs.size := getDef_lt sp i (by rw [h]; simp)
    have hsi : s < sp.defs.size := getDef_lt sp s (by rw [hs]; simp)
    have hr : Resolved sp ev i :=
      resolved_over_leaves sp ev i hi (by
        intro j hj
        have : j = s := by simpa [operands, h] using hj
        subst this
        exact ⟨hsi, by simp [operands, hs]⟩)
    have hrs : Resolved sp ev s := resolved_leaf sp ev s hsi (by simp [operands, hs])
    have hstep := val_stepTxn_accum h hr
    rw [sink_fires hs hrs, ha] at hstep
    rw [run_cons]
    cases he : ev.get s with
    | none =>
      rw [he] at hstep
      have := ih (sp := stepTxn sp ev) (by simpa using h) (by simpa using hs) a hstep
      simpa [sinkEvents, he] using this
    | some x =>
      rw [he] at hstep
      have := ih (sp := stepTxn sp ev) (by simpa using h) (by simpa using hs) _ hstep
      simpa [sinkEvents, he] using this

theorem accum_is_foldl_fresh {sp : Spec} {i s : Nat} {k op : Int} {c : Option Int}
    (h : sp.getDef i = .accum s k op) (hs : sp.getDef s = .sink c) (evs : List Events)
    (hf : sp.stored.get i = none) :
    (run sp evs).val i = some ((sinkEvents evs s).foldl (fun st x => f2 op x st) k) :=
  accum_is_foldl h hs evs k (by rw [accum_val_some h, hf]; rfl)

set_option maxRecDepth 8192 in
example : demo4.getDef 3 = .accum 0 100 1 ∧ demo4.getDef 0 = .sink none ∧
    demo4.stored.get 3 = none ∧
    (run demo4 [[(0, 1)], [(2, 5)], [(0, 2)]]).val 3 = some (f2 1 2 (f2 1 1 100)) := by decide

/-! ### collect: a stream with a hidden state (`sp.val i` is the state) -/

/-- `s.collect(k, f)` outputs `f2 op x st` for the event `x` of `s` and the state `st` at the start
    of the transaction … -/
theorem collect_fires {sp : Spec} {ev : Events} {i s : Nat} {k op : Int}
    (h : sp.getDef i = .collect s k op) (hr : Resolved sp ev i) :
    fire (fireTable sp ev) i =
      (fire (fireTable sp ev) s).bind fun x => (sp.val i).map (f2 op x) :=
  fire_unary (fun look => fireOf_collect sp ev look i h) hr

/-- … and steps its state to `f2 (op + 1) x st` -/
theorem val_stepTxn_collect {sp : Spec} {ev : Events} {i s : Nat} {k op : Int}
    (h : sp.getDef i = .collect s k op) :
    (stepTxn sp ev).val i =
      match fire (fireTable sp ev) s, sp.val i with
      | some x, some st => some (f2 (op + 1) x st)
      | _, _ => sp.val i := by
  have hb : (sp.getDef i).init? = some k := by rw [h]; rfl
  have hb' : ((stepTxn sp ev).getDef i).init? = some k := by simpa using hb
  rw [val_base hb', stepTxn_stored_collect h, val_base hb]
  cases fire (fireTable sp ev) s <;> simp

/-- the state of a `collect` over a sink is the left fold of the state function over the events -/
theorem collect_state_is_foldl {sp : Spec} {i s : Nat} {k op : Int} {c : Option Int}
    (h : sp.getDef i = .collect s k op) (hs : sp.getDef s = .sink c) (evs : List Events) (a : Int)
    (ha : sp.val i = some a) :
    (run sp evs).val i = some ((sinkEvents evs s).foldl (fun st x => f2 (op + 1) x st) a) := by
  induction evs generalizing sp a with
  | nil => simpa [sinkEvents] using ha
  | cons ev evs ih =>
    have hsi : s < sp.defs.size := getDef_lt sp s (by rw [hs]; simp)
    have hrs : Resolved sp ev s := resolved_leaf sp ev s hsi (by simp [operands, hs])
    have hstep := val_stepTxn_collect (ev := ev) h
    rw [sink_fires hs hrs, ha] at hstep
    rw [run_cons]
    cases he : ev.get s with
    | none =>
      rw [he] at hstep
      have := ih (sp := stepTxn sp ev) (by simpa using h) (by simpa using hs) a hstep
      simpa [sinkEvents, he] using this
    | some x =>
      rw [he] at hstep
      have := ih (sp := stepTxn sp ev) (by simpa using h) (by simpa using hs) _ hstep
      simpa [sinkEvents, he] using this

/-- the output of a `collect` over a sink in the transaction after `evs`: the event combined with the
    folded state -/
theorem collect_output {sp : Spec} {i s : Nat} {k op : Int} {c : Option Int}
    (h : sp.getDef i = .collect s k op) (hs : sp.getDef s = .sink c) (evs : List Events) (ev : Events)
    (hf : sp.stored.get i = none) :
    fire (fireTable (run sp evs) ev) i =
      (ev.get s).map fun x =>
        f2 op x ((sinkEvents evs s).foldl (fun st x => f2 (op + 1) x st) k) := by
  have h' : (run sp evs).getDef i = .collect s k op := by simpa using h
  have hs' : (run sp evs).getDef s = .sink c := by simpa using hs
  have hi : i < (run sp evs).defs.size := getDef_lt _ i (by rw [h']; simp)
  have hsi : s < (run sp evs).defs.size := getDef_lt _ s (by rw [hs']; simp)
  have hr : Resolved (run sp evs) ev i :=
    resolved_over_leaves _ ev i hi (by
      intro j hj
      have : j = s := by simpa [operands, h'] using hj
      subst this
      exact ⟨hsi, by simp [operands, hs']⟩)
  have hrs : Resolved (run sp evs) ev s := resolved_leaf _ ev s hsi (by simp [operands, hs'])
  have hv : sp.val i = some k := by
    rw [val_base (k := k) (by rw [h]; rfl), hf]; rfl
  rw [collect_fires h' hr, sink_fires hs' hrs, collect_state_is_foldl h hs evs k hv]
  cases ev.get s <;> rfl

set_option maxRecDepth 8192 in
example : demo4.getDef 4 = .collect 0 50 1 ∧ demo4.getDef 0 = .sink none ∧
    demo4.stored.get 4 = none ∧
    fire (fireTable (run demo4 [[(0, 1)], [(0, 2)]]) [(0, 3)]) 4 =
      some (f2 1 3 (f2 2 2 (f2 2 1 50))) := by decide

end Spec
end SodiumVerif
