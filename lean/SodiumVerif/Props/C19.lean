/-
  C19 — contexts are isolated: no global state, also across threads.
  (1) The source of the library declares no process-global mutable state (regenerated inventory).
  (2) Frame theorem: a system of two contexts is the product of two state machines; every
  interleaving of their operations — including operations of one while a transaction of the other
  is open — yields exactly what each produces alone.
-/
import SodiumVerif.Gen.Facts

namespace SodiumVerif
namespace Iso

/-- no `static`, `thread_local!`, `lazy_static!` or once-cell item in the library: all mutable state
    hangs off a `SodiumCtx` value (checked against the current source on every run) -/
theorem no_process_state : Facts.statics = [] := rfl

variable {S₁ S₂ Op₁ Op₂ Out₁ Out₂ : Type}

/-- run one machine -/
def run {S Op Out : Type} (step : S → Op → S × Out) : S → List Op → S × List Out
  | s, [] => (s, [])
  | s, o :: os => let (s', out) := step s o; let (s'', outs) := run step s' os; (s'', out :: outs)

/-- the product of two contexts: an operation is addressed to one of them and touches only it -/
def stepPair (step₁ : S₁ → Op₁ → S₁ × Out₁) (step₂ : S₂ → Op₂ → S₂ × Out₂) :
    S₁ × S₂ → Op₁ ⊕ Op₂ → (S₁ × S₂) × (Out₁ ⊕ Out₂)
  | (a, b), .inl o => let (a', out) := step₁ a o; ((a', b), .inl out)
  | (a, b), .inr o => let (b', out) := step₂ b o; ((a, b'), .inr out)

def lefts {A B : Type} : List (A ⊕ B) → List A
  | [] => []
  | .inl a :: l => a :: lefts l
  | .inr _ :: l => lefts l
def rights {A B : Type} : List (A ⊕ B) → List B
  | [] => []
  | .inl _ :: l => rights l
  | .inr b :: l => b :: rights l

/-- **frame theorem**: for every interleaving `w` of operations on two contexts, each context ends
    in the state, and has produced the outputs, that its own operations alone produce -/
theorem ctx_frame (step₁ : S₁ → Op₁ → S₁ × Out₁) (step₂ : S₂ → Op₂ → S₂ × Out₂) :
    ∀ (w : List (Op₁ ⊕ Op₂)) (a : S₁) (b : S₂),
      (run (stepPair step₁ step₂) (a, b) w).1 = ((run step₁ a (lefts w)).1, (run step₂ b (rights w)).1) ∧
      lefts (run (stepPair step₁ step₂) (a, b) w).2 = (run step₁ a (lefts w)).2 ∧
      rights (run (stepPair step₁ step₂) (a, b) w).2 = (run step₂ b (rights w)).2 := by
  intro w
  induction w with
  | nil => intro a b; simp [run, lefts, rights]
  | cons o w ih =>
    intro a b
    cases o with
    | inl o =>
      have := ih (step₁ a o).1 b
      simp only [run, stepPair, lefts, rights]
      exact ⟨this.1, by simp [lefts, this.2.1], by simp [rights, this.2.2]⟩
    | inr o =>
      have := ih a (step₂ b o).1
      simp only [run, stepPair, lefts, rights]
      exact ⟨this.1, by simp [lefts, this.2.1], by simp [rights, this.2.2]⟩

example : (run (stepPair (fun (s : Nat) (o : Nat) => (s + o, s)) (fun (s : Nat) (o : Nat) => (s * o, s)))
    (0, 1) [.inl 2, .inr 3, .inl 4]).1 = (6, 3) := by decide

end Iso
end SodiumVerif
