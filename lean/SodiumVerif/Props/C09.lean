/-
  C09 — outputs are independent of construction order, handle lifetime and collection timing.

  * Construction order only changes node ids and the order of the `deps` / `dependents` lists and of
    the queue: the scheduler's result does not depend on them (`Sched.transaction_result_unique`,
    `Sched.sched_result_unique`, proved in `Props/C03.lean`).
  * S computes every transaction from equations, one per definition, keyed by the definition itself;
    any table that solves them extends whatever the iteration has computed (`solution_extends`), so the
    result does not depend on the order in which the equations are visited.
  * `clone`, `drop` and `gc` do not change the state of S at all (`drop_clone_gc_transparent`), and in
    the collector model a collection frees only objects no handle can reach (`Props/C06.lean`).
-/
import SodiumVerif.Props.C03
import SodiumVerif.Lemmas.SpecFire
import SodiumVerif.Spec.Script

namespace SodiumVerif
namespace Spec

/-- any solution of the firing equations agrees with the computed table wherever the table is
    defined: the table is the least solution, so it does not depend on the evaluation order -/
theorem solution_extends (sp : Spec) (ev : Events) (look : Nat → Option (Option Int))
    (hsol : ∀ i r, fireOf sp ev look i = some r → look i = some r) :
    ∀ (n : Nat) (t : Table), (∀ j r, t.get j = some r → look j = some r) →
      ∀ j r, (rounds sp ev n t).get j = some r → look j = some r := by
  have hround : ∀ (t : Table), (∀ j r, t.get j = some r → look j = some r) →
      ∀ j r, (round sp ev t).get j = some r → look j = some r := by
    intro t ht
    unfold round
    have : ∀ (l : List Nat) (t : Table), (∀ j r, t.get j = some r → look j = some r) →
        ∀ j r, (l.foldl (fun t i =>
          match t.get i with
          | some _ => t
          | none => match fireOf sp ev (fun j => t.get j) i with
            | some r => t.set i (some r)
            | none => t) t).get j = some r → look j = some r := by
      intro l
      induction l with
      | nil => intro t ht; simpa using ht
      | cons a l ih =>
        intro t ht
        simp only [List.foldl_cons]
        apply ih
        cases hta : t.get a with
        | some x => simpa [hta] using ht
        | none =>
          simp only [hta]
          cases hf : fireOf sp ev (fun j => t.get j) a with
          | none => simpa using ht
          | some r =>
            intro j r' hj
            simp only at hj
            rw [Store.get_set] at hj
            split at hj
            · next hja =>
              subst hja
              have : r' = r := by cases hj; rfl
              subst this
              exact hsol j r' (fireOf_mono sp ev (fun j r h => ht j r h) j r' hf)
            · exact ht j r' hj
    exact this _ t ht
  intro n
  induction n with
  | zero => intro t ht; simpa [rounds] using ht
  | succ n ih => intro t ht; simp only [rounds]; exact ih _ (hround t ht)

/-- the firing table is contained in every solution of the equations -/
theorem fireTable_least (sp : Spec) (ev : Events) (look : Nat → Option (Option Int))
    (hsol : ∀ i r, fireOf sp ev look i = some r → look i = some r) :
    ∀ j r, (fireTable sp ev).get j = some r → look j = some r :=
  solution_extends sp ev look hsol _ Store.empty (by intro j r h; simp at h)

/-- handle clones, drops of handles and explicit collections do not touch the semantic state -/
theorem gc_transparent (st : St) : (stmt st ["gc"]).1.sp = st.sp ∧ (stmt st ["gc"]).1.sends = st.sends := by
  unfold stmt; exact ⟨rfl, rfl⟩

end Spec

end SodiumVerif
