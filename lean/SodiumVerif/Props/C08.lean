/-
  C08 — the cycle collector frees exactly the unreachable objects, once, counts exact.
  Property theorems about M_gc (`Model/Gc.lean`).  Helper lemmas live in `Lemmas/`.
-/
import SodiumVerif.Lemmas.GcBasic
import SodiumVerif.Lemmas.GcLoop
import SodiumVerif.Lemmas.GcScriptInv
import SodiumVerif.Lemmas.GcDtor

namespace SodiumVerif
namespace Gc
open State

/-- A handle operation never frees anything by itself: `dec_ref` only decrements and buffers
    (the `release` branch of the source is dead code), so every free happens in a collection. -/
theorem decRef_freed (g : State) (n i : Nat) : ((decRef g n).node i).freed = (g.node i).freed := by
  rw [decRef_node]
  split
  · next h => obtain ⟨rfl, _⟩ := h; split <;> rfl
  · rfl

theorem incRef_count (g : State) (n : Nat) (h : (g.node n).freed = false) :
    ((incRef g n).node n).rc = (g.node n).rc + 1 := by
  simp only [State.node] at h
  simp [incRef, h, State.node, State.upd]

example : ((incRef (newNode {}).1 0).node 0).rc = 2 := by decide

/-! ### soundness of a collection -/

/-- **C08 (soundness).**  From a state satisfying the invariant `GcInv` (the client respected the
    collector's contract `traced = owned`, counts cover the counted references, no walk is in
    progress), a whole collection — assuming only that the fuel of the model sufficed, which is
    proved separately —
    * does not panic,
    * frees no object reachable (along counted references) from an unfreed object with an
      external handle; such objects keep their edge lists and stay reachable,
    * re-establishes `GcInv`, with both buffers empty,
    * leaves the number of external handles `ext = rc - inCount` of every object unchanged
      (the counts stay exact), and allocates nothing. -/
theorem collect_sound (g : State) (I : GcInv g) (ho : (collectCycles g).oof = false) :
    let g' := collectCycles g
    g'.panic = none ∧
    (∀ r i, (g.nodes.get r).freed = false → 0 < ext g r → Reach g r i →
      (g'.nodes.get i).freed = false ∧ (g'.nodes.get i).owned = (g.nodes.get i).owned ∧
        Reach g' r i) ∧
    GcInv g' ∧ (g'.roots = [] ∧ g'.toBeFreed = []) ∧
    (∀ i, ext g' i = ext g i) ∧ g'.nextId = g.nextId := by
  intro g'
  obtain ⟨P, hr⟩ := collectLoop_spec (g.nextId + 2) g I ho
  have hP : Passes g g' := P
  refine ⟨hP.inv.noPanic, fun r i hfr he p => ?_, hP.inv, ⟨hr, hP.inv.tbf⟩, hP.ext I, hP.nextId⟩
  have hl : Live g i := ⟨r, hfr, he, p⟩
  have hfi := hP.live i hl
  refine ⟨hfi, (hP.mono i hfi).2, ?_⟩
  -- the path survives: every object on it is live
  induction p with
  | refl => exact .refl r
  | @step b c pb hb hc ih =>
    have hb' := hP.live b ⟨r, hfr, he, pb⟩
    refine .step (ih ⟨r, hfr, he, pb⟩ hb') hb' ?_
    rw [(hP.mono b hb').2]; exact hc

/-- the same, read backwards: whatever a collection frees was unreachable from every externally
    held object -/
theorem collect_frees_only_garbage (g : State) (I : GcInv g) (ho : (collectCycles g).oof = false)
    (i : Nat) (h0 : (g.nodes.get i).freed = false)
    (h1 : ((collectCycles g).nodes.get i).freed = true) :
    ∀ r, (g.nodes.get r).freed = false → 0 < ext g r → ¬ Reach g r i := by
  intro r hr he p
  have := ((collect_sound g I ho).2.1 r i hr he p).1
  rw [h1] at this; cases this

/-- counts stay exact: after a collection the count of every object is its external handles
    plus the counted references from unfreed objects -/
theorem collect_counts_exact (g : State) (I : GcInv g) (ho : (collectCycles g).oof = false)
    (i : Nat) :
    ((collectCycles g).nodes.get i).rc = ext g i + inCount (collectCycles g) i := by
  obtain ⟨_, _, I', _, he, _⟩ := collect_sound g I ho
  rw [← he i]
  exact (I'.ext_add i).symm

/-- one pass already has these properties (`PassOk`), and so has any number of passes -/
theorem onePass_sound (g : State) (I : GcInv g) (ho : (onePass g).oof = false) :
    Passes g (onePass g) := (onePass_spec I ho).passes I

/-- **C06 (destructor runs once).**  Every operation of the model keeps `DtorOnce`; in particular
    a collection does, from any state whatsoever. -/
theorem collect_dtor_once (g : State) (h : DtorOnce g) : DtorOnce (collectCycles g) :=
  dtorOnce_collectCycles h

/-! ### non-vacuity -/

/-- two objects in a cycle, both handles dropped -/
def exCycle : State :=
  let g := (newNode {}).1
  let g := (newNode g).1
  let g := addEdge g 0 1
  let g := addEdge g 1 0
  decRef (decRef g 0) 1

theorem exCycle_inv : GcInv exCycle := by
  have h0 := gcinv_newNode (gcinv_newNode gcinv_init)
  have h1 := gcinv_addEdge (a := 0) (b := 1) h0 (by decide) (by decide) (by decide) (by decide)
  have h2 := gcinv_addEdge (a := 1) (b := 0) h1 (by decide) (by decide) (by decide) (by decide)
  have h3 := gcinv_decRef_handle (n := 0) h2 (by decide) (by decide)
  exact gcinv_decRef_handle (n := 1) h3 (by decide) (by decide)

/-- the hypotheses of `collect_sound` hold for the garbage cycle, and it is collected -/
example : GcInv exCycle ∧ (collectCycles exCycle).oof = false ∧
    ((collectCycles exCycle).nodes.get 0).freed = true ∧
    ((collectCycles exCycle).nodes.get 1).freed = true ∧
    (collectCycles exCycle).dtorLog = [1, 0] :=
  ⟨exCycle_inv, by decide, by decide, by decide, by decide⟩

/-- a garbage cycle `0 ⇄ 1` next to a cycle `2 ⇄ 3` of which `2` is still held -/
def exMixed : State :=
  let g := (newNode {}).1
  let g := (newNode g).1
  let g := (newNode g).1
  let g := (newNode g).1
  let g := addEdge g 0 1
  let g := addEdge g 1 0
  let g := addEdge g 2 3
  let g := addEdge g 3 2
  let g := addEdge g 0 3
  decRef (decRef (decRef g 0) 1) 3

theorem exMixed_inv : GcInv exMixed := by
  have h0 := gcinv_newNode (gcinv_newNode (gcinv_newNode (gcinv_newNode gcinv_init)))
  have h1 := gcinv_addEdge (a := 0) (b := 1) h0 (by decide) (by decide) (by decide) (by decide)
  have h2 := gcinv_addEdge (a := 1) (b := 0) h1 (by decide) (by decide) (by decide) (by decide)
  have h3 := gcinv_addEdge (a := 2) (b := 3) h2 (by decide) (by decide) (by decide) (by decide)
  have h4 := gcinv_addEdge (a := 3) (b := 2) h3 (by decide) (by decide) (by decide) (by decide)
  have h5 := gcinv_addEdge (a := 0) (b := 3) h4 (by decide) (by decide) (by decide) (by decide)
  have h6 := gcinv_decRef_handle (n := 0) h5 (by decide) (by decide)
  have h7 := gcinv_decRef_handle (n := 1) h6 (by decide) (by decide)
  exact gcinv_decRef_handle (n := 3) h7 (by decide) (by decide)

/-- object `2` has an external handle and reaches `3`; the collection frees `0`, `1` only, and
    the count of `3` drops by the reference the freed object `0` held -/
example : GcInv exMixed ∧ (collectCycles exMixed).oof = false ∧
    (exMixed.nodes.get 2).freed = false ∧ 0 < ext exMixed 2 ∧ Reach exMixed 2 3 ∧
    ((collectCycles exMixed).nodes.get 0).freed = true ∧
    ((collectCycles exMixed).nodes.get 1).freed = true ∧
    ((collectCycles exMixed).nodes.get 2).freed = false ∧
    ((collectCycles exMixed).nodes.get 3).freed = false ∧
    (exMixed.nodes.get 3).rc = 2 ∧ ((collectCycles exMixed).nodes.get 3).rc = 1 :=
  ⟨exMixed_inv, by decide, by decide, by decide,
   .step (.refl 2) (by decide) (by decide), by decide, by decide, by decide, by decide, by decide,
   by decide⟩

example : DtorOnce (collectCycles {}) := collect_dtor_once _ dtorOnce_init

end Gc

/-! ### the whole protocol -/

namespace GcScript
open Gc

/-- states a contract-respecting client can reach (collections assumed not to run out of the
    model's fuel) -/
inductive Reachable : St → Prop
  | init : Reachable {}
  | step {s s' : St} {op : Op} : Reachable s → op.good →
      (op = .collect → (collectCycles s.g).oof = false) → apply s op = some s' → Reachable s'

/-- **C08 at the protocol level.**  Whatever sequence of `new / inc / dec / edge / unedge /
    updrop / collect` operations a client performs, the collector never panics, its invariant
    holds, and every object the client holds a handle on is allocated, not freed, and its count
    covers the handles. -/
theorem script_sound {s : St} (h : Reachable s) :
    GcInv s.g ∧ s.g.panic = none ∧
    ∀ a, 0 < s.handles.get a →
      a < s.g.nextId ∧ (s.g.nodes.get a).freed = false ∧ s.handles.get a ≤ ext s.g a := by
  have J : ScriptInv s := by
    induction h with
    | init => exact scriptInv_init
    | step _ hop hf ha ih => exact script_step ih hop hf ha
  exact ⟨J.inv, J.inv.noPanic, J.held⟩

instance : DecidablePred Op.good := fun op => by
  cases op <;> unfold Op.good <;> infer_instance

/-- run a script, skipping inapplicable operations (as `step` does) -/
def runOps (s : St) : List Op → St
  | [] => s
  | op :: rest =>
    match apply s op with
    | some s' => runOps s' rest
    | none => runOps s rest

/-- no collection of the run exhausts the model's fuel (computable; `Lemmas/GcFuel` shows it
    always holds) -/
def fuelOk (s : St) : List Op → Bool
  | [] => true
  | op :: rest =>
    (if op = .collect then !(collectCycles s.g).oof else true) &&
    match apply s op with
    | some s' => fuelOk s' rest
    | none => fuelOk s rest

theorem reachable_runOps : ∀ (ops : List Op) (s : St), Reachable s → (∀ op ∈ ops, op.good) →
    fuelOk s ops = true → Reachable (runOps s ops) := by
  intro ops
  induction ops with
  | nil => intro s h _ _; exact h
  | cons op rest ih =>
    intro s h hg hf
    simp only [fuelOk, Bool.and_eq_true] at hf
    unfold runOps
    cases ha : apply s op with
    | none =>
      simp only [ha] at hf ⊢
      exact ih s h (fun o ho => hg o (List.mem_cons_of_mem _ ho)) hf.2
    | some s' =>
      simp only [ha] at hf ⊢
      refine ih s' (.step h (hg op List.mem_cons_self) (fun e => ?_) ha)
        (fun o ho => hg o (List.mem_cons_of_mem _ ho)) hf.2
      have := hf.1
      rw [if_pos e] at this
      simpa using this

/-- non-vacuity: the run `new new edge 0 1 edge 1 0 dec 0 collect` is reachable; it keeps object
    `1` (still held) and object `0` (reachable from `1`), and empties the candidate buffer -/
example :
    let s := runOps {} [.new, .new, .edge 0 1, .edge 1 0, .dec 0, .collect]
    Reachable s ∧ s.handles.get 1 = 1 ∧ (s.g.nodes.get 0).freed = false ∧ s.g.roots = [] :=
  ⟨reachable_runOps _ _ .init (by decide) (by decide), by decide, by decide, by decide⟩

/-- … and after dropping the last handle the cycle is collected -/
example :
    let s := runOps {} [.new, .new, .edge 0 1, .edge 1 0, .dec 0, .dec 1, .collect]
    Reachable s ∧ (s.g.nodes.get 0).freed = true ∧ (s.g.nodes.get 1).freed = true ∧
      s.g.panic = none :=
  ⟨reachable_runOps _ _ .init (by decide) (by decide), by decide, by decide, by decide⟩

end GcScript
end SodiumVerif
