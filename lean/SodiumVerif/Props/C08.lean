/-
  C08 — the cycle collector frees exactly the unreachable objects, once, counts exact.
  Property theorems about M_gc (`Model/Gc.lean`).  Helper lemmas live in `Lemmas/`.
-/
import SodiumVerif.Lemmas.GcBasic

namespace SodiumVerif
namespace Gc
open State

/-- A handle operation never frees anything by itself: `dec_ref` only decrements and buffers
    (the `release` branch of the source is dead code), so every free happens in a collection. -/
theorem decRef_freed (g : State) (n i : Nat) : ((decRef g n).node i).freed = (g.node i).freed := by
  rw [decRef_node]
  split
  · next h => obtain ⟨rfl, _⟩ := h; split <;> rfl
  · rfl

theorem incRef_count (g : State) (n : Nat) (h : (g.node n).freed = false) :
    ((incRef g n).node n).rc = (g.node n).rc + 1 := by
  simp only [State.node] at h
  simp [incRef, h, State.node, State.upd]

example : ((incRef (newNode {}).1 0).node 0).rc = 2 := by decide

end Gc
end SodiumVerif
