/-
  C18b — router streams and switches over whole histories: the one-transaction theorems of C18 / C05
  lifted to every state `run sp evs` reachable from a well-formed program, and their corollaries.
-/
import SodiumVerif.Props.C18
import SodiumVerif.Props.C05

namespace SodiumVerif
namespace Spec

/-- in every reachable state of a well-formed program, every definition resolves in every next
    transaction -/
theorem reach_resolved {sp : Spec} {rank : Nat → Nat} (wf : WellFormed sp rank) (evs : List Events)
    (ev : Events) {i : Nat} (hi : i < sp.defs.size) : Resolved (run sp evs) ev i :=
  (wf.same (sameProg_run sp evs)).resolved ev (by rw [run_defs]; exact hi)

/-- **route_history**: `route_fires` in every reachable state, for every next transaction -/
theorem route_history {sp : Spec} {rank : Nat → Nat} (wf : WellFormed sp rank) {i src : Nat}
    {sel k : Int} (h : sp.getDef i = .route src sel k) (evs : List Events) (ev : Events) :
    fire (fireTable (run sp evs) ev) i =
      (fire (fireTable (run sp evs) ev) src).filter (fun x => (routeKeys sel x).contains k) := by
  have hi : i < sp.defs.size := getDef_lt sp i (by rw [h]; simp)
  exact route_fires (by rw [run_getDef]; exact h) (reach_resolved wf evs ev hi)

/-- if the source does not fire in a transaction, no route of it fires -/
theorem route_silent_without_source {sp : Spec} {rank : Nat → Nat} (wf : WellFormed sp rank)
    {i src : Nat} {sel k : Int} (h : sp.getDef i = .route src sel k) (evs : List Events) (ev : Events)
    (hs : fire (fireTable (run sp evs) ev) src = none) :
    fire (fireTable (run sp evs) ev) i = none := by
  rw [route_history wf h evs ev, hs]; rfl

/-- no invention: if the route fires `x`, the source fired exactly `x`, and `k` is among `x`'s keys -/
theorem route_value_is_source_value {sp : Spec} {rank : Nat → Nat} (wf : WellFormed sp rank)
    {i src : Nat} {sel k : Int} (h : sp.getDef i = .route src sel k) (evs : List Events) (ev : Events)
    {x : Int} (hx : fire (fireTable (run sp evs) ev) i = some x) :
    fire (fireTable (run sp evs) ev) src = some x ∧ (routeKeys sel x).contains k = true := by
  rw [route_history wf h evs ev] at hx
  exact Option.filter_eq_some_iff.mp hx

/-- and conversely: a source value with key `k` reaches the route for `k` -/
theorem route_delivers {sp : Spec} {rank : Nat → Nat} (wf : WellFormed sp rank)
    {i src : Nat} {sel k : Int} (h : sp.getDef i = .route src sel k) (evs : List Events) (ev : Events)
    {x : Int} (hs : fire (fireTable (run sp evs) ev) src = some x)
    (hk : (routeKeys sel x).contains k = true) :
    fire (fireTable (run sp evs) ev) i = some x := by
  rw [route_history wf h evs ev]
  exact Option.filter_eq_some_iff.mpr ⟨hs, hk⟩

/-- two routes of the same source for the same key (requested twice, or dropped and requested again)
    fire identically in every transaction of every history -/
theorem route_same_key_twins {sp : Spec} {rank : Nat → Nat} (wf : WellFormed sp rank)
    {i j src : Nat} {sel k : Int} (hi : sp.getDef i = .route src sel k)
    (hj : sp.getDef j = .route src sel k) (evs : List Events) (ev : Events) :
    fire (fireTable (run sp evs) ev) i = fire (fireTable (run sp evs) ev) j := by
  rw [route_history wf hi evs ev, route_history wf hj evs ev]

/-- the routes for two keys both fire iff the source fires a value having both keys -/
theorem route_keys_both {sp : Spec} {rank : Nat → Nat} (wf : WellFormed sp rank)
    {i1 i2 src : Nat} {sel k1 k2 : Int} (h1 : sp.getDef i1 = .route src sel k1)
    (h2 : sp.getDef i2 = .route src sel k2) (evs : List Events) (ev : Events) (x : Int) :
    (fire (fireTable (run sp evs) ev) i1 = some x ∧ fire (fireTable (run sp evs) ev) i2 = some x) ↔
      (fire (fireTable (run sp evs) ev) src = some x ∧ (routeKeys sel x).contains k1 = true ∧
        (routeKeys sel x).contains k2 = true) := by
  rw [route_history wf h1 evs ev, route_history wf h2 evs ev,
    Option.filter_eq_some_iff, Option.filter_eq_some_iff]
  constructor
  · rintro ⟨⟨a, b⟩, _, c⟩; exact ⟨a, b, c⟩
  · rintro ⟨a, b, c⟩; exact ⟨⟨a, b⟩, a, c⟩

/-- the firing of a route depends only on the firing of its source: two programs (say, one in which
    key `k2` was requested and one in which it never was), after any two histories, in two
    transactions in which the sources fire the same — the routes for `k1` fire the same -/
theorem route_keys_independent {sp sp' : Spec} {rank rank' : Nat → Nat} (wf : WellFormed sp rank)
    (wf' : WellFormed sp' rank') {i i' src src' : Nat} {sel k1 : Int}
    (h : sp.getDef i = .route src sel k1) (h' : sp'.getDef i' = .route src' sel k1)
    (evs evs' : List Events) (ev ev' : Events)
    (hsrc : fire (fireTable (run sp evs) ev) src = fire (fireTable (run sp' evs') ev') src') :
    fire (fireTable (run sp evs) ev) i = fire (fireTable (run sp' evs') ev') i' := by
  rw [route_history wf h evs ev, route_history wf' h' evs' ev', hsrc]

/-! ### switches over histories -/

/-- **switchs_history**: in every reachable state in which the selector has value `k`, switch_s
    fires in the next transaction exactly what the candidate selected by `k` fires -/
theorem switchs_history {sp : Spec} {rank : Nat → Nat} (wf : WellFormed sp rank) {i sel : Nat}
    {cands : List Nat} (h : sp.getDef i = .switchs sel cands) (evs : List Events) (ev : Events)
    {k : Int} (hv : (run sp evs).val sel = some k) :
    fire (fireTable (run sp evs) ev) i =
      fire (fireTable (run sp evs) ev) (cands.getD (k % cands.length).toNat 0) := by
  have hi : i < sp.defs.size := getDef_lt sp i (by rw [h]; simp)
  exact switchs_fires (by rw [run_getDef]; exact h) hv (reach_resolved wf evs ev hi)

/-- no loss, no duplicate: switch_s fires `x` iff the selected candidate fires `x` -/
theorem switchs_no_loss_no_dup {sp : Spec} {rank : Nat → Nat} (wf : WellFormed sp rank) {i sel : Nat}
    {cands : List Nat} (h : sp.getDef i = .switchs sel cands) (evs : List Events) (ev : Events)
    {k : Int} (hv : (run sp evs).val sel = some k) (x : Int) :
    fire (fireTable (run sp evs) ev) i = some x ↔
      fire (fireTable (run sp evs) ev) (cands.getD (k % cands.length).toNat 0) = some x := by
  rw [switchs_history wf h evs ev hv]

/-- switch_s is silent exactly when the selected candidate is -/
theorem switchs_silent_iff {sp : Spec} {rank : Nat → Nat} (wf : WellFormed sp rank) {i sel : Nat}
    {cands : List Nat} (h : sp.getDef i = .switchs sel cands) (evs : List Events) (ev : Events)
    {k : Int} (hv : (run sp evs).val sel = some k) :
    fire (fireTable (run sp evs) ev) i = none ↔
      fire (fireTable (run sp evs) ev) (cands.getD (k % cands.length).toNat 0) = none := by
  rw [switchs_history wf h evs ev hv]

/-- in a transaction in which the selector does not fire, switch_c's update is the update of the
    currently selected candidate cell only: an update of any other candidate does not reach it -/
theorem switchc_ignores_old {sp : Spec} {rank : Nat → Nat} (wf : WellFormed sp rank) {i sel : Nat}
    {cands : List Nat} (h : sp.getDef i = .switchc sel cands) (evs : List Events) (ev : Events)
    {k : Int} (hv : (run sp evs).val sel = some k)
    (hs : fire (fireTable (run sp evs) ev) sel = none) :
    fire (fireTable (run sp evs) ev) i =
      fire (fireTable (run sp evs) ev) (cands.getD (k % cands.length).toNat 0) := by
  have hi : i < sp.defs.size := getDef_lt sp i (by rw [h]; simp)
  rw [switchc_fires (by rw [run_getDef]; exact h) (reach_resolved wf evs ev hi), hs, hv]

/-- so if the selected candidate is not updated either, switch_c is not updated, whatever the other
    candidates do -/
theorem switchc_silent_when_selected_silent {sp : Spec} {rank : Nat → Nat} (wf : WellFormed sp rank)
    {i sel : Nat} {cands : List Nat} (h : sp.getDef i = .switchc sel cands) (evs : List Events)
    (ev : Events) {k : Int} (hv : (run sp evs).val sel = some k)
    (hs : fire (fireTable (run sp evs) ev) sel = none)
    (hc : fire (fireTable (run sp evs) ev) (cands.getD (k % cands.length).toNat 0) = none) :
    fire (fireTable (run sp evs) ev) i = none := by
  rw [switchc_ignores_old wf h evs ev hv hs, hc]

/-! ### the hypotheses are satisfiable -/

/-- `0 = sink`, `1, 2 = route 0 1 0` (same key twice), `3 = route 0 1 1`, `4 = csink`,
    `5 = switchs 4 [1, 3]`, `6, 7 = csink`, `8 = switchc 4 [6, 7]` -/
def demo18b : Spec :=
  { defs := #[.sink none, .route 0 1 0, .route 0 1 0, .route 0 1 1, .csink 0, .switchs 4 [1, 3],
              .csink 10, .csink 20, .switchc 4 [6, 7]],
    created := #[0, 0, 0, 0, 0, 0, 0, 0, 0] }

set_option maxRecDepth 8192 in
example : WellFormed demo18b id ∧ demo18b.getDef 1 = .route 0 1 0 ∧ demo18b.getDef 2 = .route 0 1 0 ∧
    demo18b.getDef 3 = .route 0 1 1 ∧ demo18b.getDef 5 = .switchs 4 [1, 3] ∧
    demo18b.getDef 8 = .switchc 4 [6, 7] :=
  ⟨⟨⟨by decide, by decide, by decide⟩, by decide, by decide⟩, by decide⟩

end Spec
end SodiumVerif
