/-
  C20b — the POSITIVE half of C20: sends that do not overlap are all delivered, exactly once.

  `Props/C20.lean` exhibits schedules of M_conc (`Model/Conc.lean`) in which overlapping sends are
  lost or merged.  Here: in M_conc, as long as no thread is scheduled while another one is in the
  middle of a `send`, every send of every thread is delivered exactly once, in the order in which
  the sends were started, each in its own transaction (one collection per send), and the context is
  idle afterwards.  Proofs: `Lemmas/ConcSerial.lean`.

  * `send_alone`             one send = exactly 19 segments, from idle to idle
  * `program_alone`          a whole program executed alone
  * `serial_delivers_all`    `run nsinks progs []` : `delivered = progs.flatten`
  * `exclusive_delivers_all` `run nsinks progs (blocks order)` : `delivered = serialOrder progs order`,
                             a permutation of `progs.flatten` (`exclusive_exactly_once`)

  The fuel of `run` is 4000 segments; a send takes 19, hence the hypothesis
  `19 * progs.flatten.length ≤ 4000` (at most 210 sends).  As for C20, this is a statement about the
  model at the granularity of the library's schedule points, not about the runtime.
-/
import SodiumVerif.Lemmas.ConcSerial

namespace SodiumVerif
namespace Conc

/-- **one send executed alone.**  From an idle context, a thread at the start of a send of `v` on
    sink `s < nsinks` (not inside a nested `_send`) needs exactly 19 segments; afterwards the context
    is idle again, `(s, v)` has been delivered — once —, one collection has run, and the thread has
    moved on to its next send. -/
theorem send_alone (sh : Shared) (t : Thread) (s : Nat) (v : Int) (hidle : Idle sh)
    (hcur : t.cur = some (s, v)) (hpc : t.pc = .start) (hnested : t.nested = false)
    (hs : s < sh.nsinks) :
    Idle (iter 19 sh t).1 ∧
    (iter 19 sh t).1.delivered = sh.delivered ++ [(s, v)] ∧
    (iter 19 sh t).1.collects = sh.collects + 1 ∧
    (iter 19 sh t).1.nsinks = sh.nsinks ∧
    (iter 19 sh t).2 = t.next := by
  obtain ⟨h1, h2, h3, h4, h5, _⟩ := send_alone_full sh t s v hidle hcur hpc hnested hs
  exact ⟨h1, h2, h3, h4, h5⟩

/-- 19 is exact: during the first 18 segments the send is still in progress (`cur` is unchanged) -/
theorem send_alone_not_before (sh : Shared) (t : Thread) (s : Nat) (v : Int) (hidle : Idle sh)
    (hcur : t.cur = some (s, v)) (hpc : t.pc = .start) (hnested : t.nested = false)
    (hs : s < sh.nsinks) (j : Nat) (hj : j < 19) : (iter j sh t).2.cur = some (s, v) :=
  (send_alone_full sh t s v hidle hcur hpc hnested hs).2.2.2.2.2 j hj

/-- **a whole program executed alone** from an idle context: `19 * n` segments deliver its `n` sends,
    once each, in program order, in `n` transactions; the context ends idle, the thread finished -/
theorem program_alone (sh : Shared) (p : List (Nat × Int)) (hidle : Idle sh)
    (hs : ∀ sv ∈ p, sv.1 < sh.nsinks) :
    Idle (iter (19 * p.length) sh ({ todo := p } : Thread).next).1 ∧
    (iter (19 * p.length) sh ({ todo := p } : Thread).next).1.delivered = sh.delivered ++ p ∧
    (iter (19 * p.length) sh ({ todo := p } : Thread).next).1.collects = sh.collects + p.length ∧
    (iter (19 * p.length) sh ({ todo := p } : Thread).next).1.nsinks = sh.nsinks ∧
    (iter (19 * p.length) sh ({ todo := p } : Thread).next).2.finished = true := by
  obtain ⟨hrest, hrem⟩ := atRest_init hs
  have h := program_alone_gen p.length sh _ hidle hrest (by rw [hrem])
  rw [hrem] at h
  obtain ⟨⟨h1, h2, h3, h4⟩, h5⟩ := h
  exact ⟨h1, h2, h3, h4, h5⟩

/-- **serial execution delivers everything.**  On the empty schedule the threads run one after the
    other, lowest id first: every send is delivered exactly once, in program order, thread after
    thread, one transaction (collection) per send, and the context ends idle. -/
theorem serial_delivers_all (nsinks : Nat) (progs : List (List (Nat × Int)))
    (hs : ∀ p ∈ progs, ∀ sv ∈ p, sv.1 < nsinks) (hfuel : 19 * progs.flatten.length ≤ 4000) :
    (run nsinks progs []).delivered = progs.flatten ∧
    (run nsinks progs []).collects = progs.flatten.length ∧
    Idle (run nsinks progs []) := by
  have h := (serial_runSched _ { nsinks := nsinks } (initThreads progs) 4000 (idle_init nsinks)
    (allRest_init hs) rfl (by rw [rems_init]; exact hfuel)).1
  rw [rems_init, ← run_eq] at h
  obtain ⟨h1, h2, h3, _⟩ := h
  exact ⟨by simpa using h2, by simpa using h3, h1⟩

/-- **exclusive schedules deliver everything.**  `blocks order` gives the threads named by `order` one
    whole send each, in turn, and runs the rest serially — no thread is scheduled while another one
    is in the middle of a send.  Every send is delivered in the order in which the sends were
    started (`serialOrder progs order`), one transaction per send, and the context ends idle. -/
theorem exclusive_delivers_all (nsinks : Nat) (progs : List (List (Nat × Int))) (order : List Nat)
    (hs : ∀ p ∈ progs, ∀ sv ∈ p, sv.1 < nsinks) (hfuel : 19 * progs.flatten.length ≤ 4000) :
    (run nsinks progs (blocks order)).delivered = serialOrder progs order ∧
    (run nsinks progs (blocks order)).collects = progs.flatten.length ∧
    Idle (run nsinks progs (blocks order)) := by
  have h := (exclusive_runSched order { nsinks := nsinks } (initThreads progs) 4000
    (idle_init nsinks) (allRest_init hs) (by rw [rems_init]; exact hfuel)).1
  rw [rems_init, ← run_eq] at h
  obtain ⟨h1, h2, h3, _⟩ := h
  refine ⟨by simpa using h2, ?_, h1⟩
  rw [h3, (serialOrder_perm order progs).length_eq]
  simp

/-- ... exactly once: what is delivered is a permutation of all the sends of all the programs -/
theorem exclusive_exactly_once (nsinks : Nat) (progs : List (List (Nat × Int))) (order : List Nat)
    (hs : ∀ p ∈ progs, ∀ sv ∈ p, sv.1 < nsinks) (hfuel : 19 * progs.flatten.length ≤ 4000) :
    (run nsinks progs (blocks order)).delivered.Perm progs.flatten := by
  rw [(exclusive_delivers_all nsinks progs order hs hfuel).1]
  exact serialOrder_perm order progs

/-- the empty schedule is the exclusive schedule with no block -/
theorem blocks_nil : blocks [] = [] := rfl

/-! ### concrete instances, computed by the kernel -/

/-- two threads, two sends each, on two sinks -/
def twoByTwo : List (List (Nat × Int)) := [[(0, 1), (1, 2)], [(1, 3), (0, 4)]]

/-- serial: thread 0's two sends, then thread 1's; four transactions; idle fields -/
example :
    (run 2 twoByTwo []).delivered = [(0, 1), (1, 2), (1, 3), (0, 4)] ∧
    (run 2 twoByTwo []).collects = 4 ∧
    (run 2 twoByTwo []).depth = 0 ∧ (run 2 twoByTwo []).allow = 0 ∧
    (run 2 twoByTwo []).changedNodes = [] ∧ (run 2 twoByTwo []).prePost = [] ∧
    (run 2 twoByTwo []).underflow = false := by decide +kernel

/-- the same, as an instance of the theorem -/
example : (run 2 twoByTwo []).delivered = twoByTwo.flatten ∧ Idle (run 2 twoByTwo []) := by
  have h := serial_delivers_all 2 twoByTwo (by decide) (by decide)
  exact ⟨h.1, h.2.2⟩

/-- alternating whole sends: thread 1, thread 0, thread 1, thread 0 -/
example :
    (run 2 twoByTwo (blocks [1, 0, 1, 0])).delivered = [(1, 3), (0, 1), (0, 4), (1, 2)] ∧
    (run 2 twoByTwo (blocks [1, 0, 1, 0])).collects = 4 ∧
    (run 2 twoByTwo (blocks [1, 0, 1, 0])).depth = 0 ∧
    (run 2 twoByTwo (blocks [1, 0, 1, 0])).changedNodes = [] := by decide +kernel

/-- what the theorem predicts for that schedule -/
example : serialOrder twoByTwo [1, 0, 1, 0] = [(1, 3), (0, 1), (0, 4), (1, 2)] := by decide +kernel

/-- 19 is exact on a concrete state: after 18 segments the send is not finished, after 19 it is -/
example :
    (iter 18 { nsinks := 2 } ({ todo := [(1, 7)] } : Thread).next).2.finished = false ∧
    (iter 19 { nsinks := 2 } ({ todo := [(1, 7)] } : Thread).next).2.finished = true ∧
    (iter 19 { nsinks := 2 } ({ todo := [(1, 7)] } : Thread).next).1.delivered = [(1, 7)] := by
  decide +kernel

/-- the hypothesis "no overlap" is necessary (cf. `lost_send_witness` in C20): thread 1 scheduled
    after only 14 segments of thread 0's first send — two of the four sends are never delivered -/
example : (run 2 twoByTwo (List.replicate 14 0 ++ List.replicate 19 1)).delivered = [(0, 1), (1, 2)] := by
  decide +kernel

end Conc
end SodiumVerif
