/-
  C16 (second half) — the total cost of a collection is linear in the graph.

  `Props/C16` bounds one pass by 9 `trace()` calls per object and 9 callbacks per edge, and the
  number of passes by `unfreed + 1` (a pass that leaves a candidate frees an object).  Under the
  collector invariant `GcInv` and the buffer invariant `BufInv` (the discipline every client
  operation keeps: `Props/C07`) the number of passes is at most **two**:

  * the first pass frees all garbage (`onePass_frees_garbage`), so what is unfreed afterwards is
    reachable from an externally held object;
  * a pass never frees such an object (`onePass_spec`), so the second pass frees nothing — it only
    walks the candidates that the destructors run by the first pass re-buffered — and a pass that
    frees nothing leaves both buffers empty (`onePass_pass`).

  Hence at most 18 `trace()` calls per object and 18 callbacks per edge for a whole collection; and
  the same with "object / edge of `S`" for any duplicate-free edge-closed set `S` containing the
  candidate buffer, because the candidates of the second pass are targets of owned references of
  objects freed by the first and so lie in `S` again.
-/
import SodiumVerif.Props.C07
import SodiumVerif.Lemmas.GcPasses

namespace SodiumVerif
namespace Gc

/-- **The second pass of a collection frees nothing.**  After the first pass every allocated
    unfreed object is live; the second pass changes no `freed` flag (objects freed by the first
    pass may be re-buffered and walked again: they stay freed, and `unfreed` is unchanged), raises
    no panic, does not run out of fuel, and ends with both buffers empty. -/
theorem second_pass_idle (g : State) (I : GcInv g) (B : BufInv g) (h0 : g.oof = false) :
    let g1 := onePass g
    let g2 := onePass g1
    GcInv g1 ∧ g1.oof = false ∧
    (∀ i, i < g1.nextId → (g1.nodes.get i).freed = false → Live g1 i) ∧
    (∀ i, (g2.nodes.get i).freed = (g1.nodes.get i).freed) ∧
    unfreed g.nextId g2 = unfreed g.nextId g1 ∧
    g2.roots = [] ∧ g2.toBeFreed = [] ∧ g2.panic = none ∧ g2.oof = false := by
  obtain ⟨I1, NG, ho, hfr, hu, hr, ht, hp, ho2, _, _⟩ := second_pass_frees_nothing I B h0
  exact ⟨I1, ho, NG, hfr, hu, hr, ht, hp, ho2⟩

/-- **Two passes suffice.**  `collect_cycles` is its first pass if that leaves the candidate
    buffer empty, and its first two passes otherwise. -/
theorem two_passes_suffice (g : State) (I : GcInv g) (B : BufInv g) (h0 : g.oof = false) :
    collectCycles g = if (onePass g).roots = [] then onePass g else onePass (onePass g) :=
  collectCycles_two_passes I B h0

/-- … as a number of passes: `collect_cycles` is `k` iterations of `onePass` for `k = 1` or `2`
    (the loop bound `nextId + 2` of the model is never approached). -/
theorem collect_passes_le_two (g : State) (I : GcInv g) (B : BufInv g) (h0 : g.oof = false) :
    ∃ k, 1 ≤ k ∧ k ≤ 2 ∧ collectCycles g = Nat.repeat onePass k g :=
  collectCycles_iterate I B h0

/-- a collection frees exactly what its first pass frees -/
theorem collect_frees_what_first_pass_frees (g : State) (I : GcInv g) (B : BufInv g)
    (h0 : g.oof = false) (i : Nat) :
    ((collectCycles g).nodes.get i).freed = ((onePass g).nodes.get i).freed :=
  collectCycles_freed_eq_onePass I B h0 i

/-- **C16 (linear total cost).**  A collection terminates and makes at most 18 `trace()` calls per
    allocated object and 18 tracer callbacks per reported edge — for every shape of the graph and
    however much of it is garbage (compare `collectCycles_trace_calls_le`: `(unfreed + 1) · 9`
    per object without the buffer invariant). -/
theorem collect_cost_linear (g : State) (I : GcInv g) (B : BufInv g) (h0 : g.oof = false) :
    (collectCycles g).oof = false ∧
    (collectCycles g).traceCalls ≤ g.traceCalls + 18 * g.nextId ∧
    (collectCycles g).edgeCalls ≤ g.edgeCalls + 18 * totalEdges g :=
  ⟨by rw [collectCycles_terminates g I.bounded]; exact h0, collectCycles_linear I B h0⟩

/-- **C16 (linear in what the collection can reach).**  For every duplicate-free set `S` of
    objects that is closed under reported edges and contains the candidate buffer — e.g. everything
    reachable from the candidates — a collection makes at most 18 `trace()` calls per object of `S`
    and 18 callbacks per edge leaving an object of `S`; the rest of the graph costs nothing. -/
theorem collect_cost_linear_on {S : List Nat} (hS : S.Nodup) (g : State) (I : GcInv g)
    (B : BufInv g) (h0 : g.oof = false) (hr : ∀ r ∈ g.roots, r ∈ S) (hc : Closed g S) :
    (collectCycles g).traceCalls ≤ g.traceCalls + 18 * S.length ∧
    (collectCycles g).edgeCalls ≤ g.edgeCalls + 18 * edgesOf g S :=
  collectCycles_linear_on hS I B h0 hr hc

/-- the candidates of the next pass stay inside `S` -/
theorem next_candidates_in {S : List Nat} (hS : S.Nodup) (g : State) (I : GcInv g)
    (hr : ∀ r ∈ g.roots, r ∈ S) (hc : Closed g S) : ∀ r ∈ (onePass g).roots, r ∈ S :=
  onePass_roots_in hS I hr hc

/-! ### non-vacuity -/

/-- the garbage 2-cycle of `Props/C08`: the hypotheses hold; the first pass frees both objects and
    the destructor of `0` re-buffers `1`, so a second pass runs (and frees nothing: `unfreed` stays
    0); 24 `trace()` calls ≤ 18·2 and 16 callbacks ≤ 18·2 -/
example : GcInv exCycle ∧ BufInv exCycle ∧ exCycle.oof = false ∧
    (onePass exCycle).roots = [1] ∧
    collectCycles exCycle = onePass (onePass exCycle) ∧
    unfreed 2 exCycle = 2 ∧ unfreed 2 (onePass exCycle) = 0 ∧
    unfreed 2 (onePass (onePass exCycle)) = 0 ∧
    (onePass (onePass exCycle)).roots = [] ∧
    exCycle.nextId = 2 ∧ totalEdges exCycle = 2 ∧
    (collectCycles exCycle).traceCalls = 24 ∧ (collectCycles exCycle).edgeCalls = 16 := by
  have h := two_passes_suffice exCycle exCycle_inv exCycle_buf (by decide)
  rw [if_neg (by decide)] at h
  exact ⟨exCycle_inv, exCycle_buf, by decide, by decide, h, by decide, by decide, by decide,
    by decide, by decide, by decide, by decide, by decide⟩

/-- the mixed example of `Props/C08` (garbage cycle `0 ⇄ 1` pointing into the held cycle
    `2 ⇄ 3`): two passes, the second keeps `unfreed` at 2; 54 `trace()` calls ≤ 18·4 and
    54 callbacks ≤ 18·5 -/
example : GcInv exMixed ∧ BufInv exMixed ∧ exMixed.oof = false ∧
    (onePass exMixed).roots = [1, 3] ∧
    collectCycles exMixed = onePass (onePass exMixed) ∧
    unfreed 4 exMixed = 4 ∧ unfreed 4 (onePass exMixed) = 2 ∧
    unfreed 4 (onePass (onePass exMixed)) = 2 ∧
    exMixed.nextId = 4 ∧ totalEdges exMixed = 5 ∧
    (collectCycles exMixed).traceCalls = 54 ∧ (collectCycles exMixed).edgeCalls = 54 := by
  have h := two_passes_suffice exMixed exMixed_inv exMixed_buf (by decide)
  rw [if_neg (by decide)] at h
  exact ⟨exMixed_inv, exMixed_buf, by decide, by decide, h, by decide, by decide, by decide,
    by decide, by decide, by decide, by decide⟩

/-- one pass is enough when the first leaves no candidate: a single held object, dropped -/
example :
    let g := decRef (newNode {}).1 0
    GcInv g ∧ BufInv g ∧ g.oof = false ∧ g.roots = [0] ∧ collectCycles g = onePass g ∧
    ((collectCycles g).nodes.get 0).freed = true := by
  intro g
  have i0 : GcInv (newNode {}).1 := gcinv_newNode gcinv_init
  have b0 : BufInv (newNode {}).1 := bufinv_newNode gcinv_init bufinv_init
  have i1 : GcInv g := gcinv_decRef_handle (n := 0) i0 (by decide) (by decide)
  have b1 : BufInv g := bufinv_decRef_handle (n := 0) i0 b0 (by decide) (by decide)
  have h := two_passes_suffice g i1 b1 (by decide)
  rw [if_pos (by decide)] at h
  exact ⟨i1, b1, by decide, by decide, h, by decide⟩

/-- `exMixed` with a fifth, unrelated object allocated first (ids shifted by one) -/
def exSpare : State :=
  let g := (newNode {}).1
  let g := (newNode g).1
  let g := (newNode g).1
  let g := (newNode g).1
  let g := (newNode g).1
  let g := addEdge g 1 2
  let g := addEdge g 2 1
  let g := addEdge g 3 4
  let g := addEdge g 4 3
  let g := addEdge g 1 4
  decRef (decRef (decRef g 1) 2) 4

theorem exSpare_inv_buf : GcInv exSpare ∧ BufInv exSpare := by
  have j0 := gcinv_newNode gcinv_init
  have c0 := bufinv_newNode gcinv_init bufinv_init
  have j1 := gcinv_newNode j0
  have c1 := bufinv_newNode j0 c0
  have j2 := gcinv_newNode j1
  have c2 := bufinv_newNode j1 c1
  have j3 := gcinv_newNode j2
  have c3 := bufinv_newNode j2 c2
  have i0 := gcinv_newNode j3
  have b0 := bufinv_newNode j3 c3
  have i1 := gcinv_addEdge (a := 1) (b := 2) i0 (by decide) (by decide) (by decide) (by decide)
  have b1 := bufinv_addEdge (a := 1) (b := 2) i0 b0 (by decide) (by decide) (by decide) (by decide)
  have i2 := gcinv_addEdge (a := 2) (b := 1) i1 (by decide) (by decide) (by decide) (by decide)
  have b2 := bufinv_addEdge (a := 2) (b := 1) i1 b1 (by decide) (by decide) (by decide) (by decide)
  have i3 := gcinv_addEdge (a := 3) (b := 4) i2 (by decide) (by decide) (by decide) (by decide)
  have b3 := bufinv_addEdge (a := 3) (b := 4) i2 b2 (by decide) (by decide) (by decide) (by decide)
  have i4 := gcinv_addEdge (a := 4) (b := 3) i3 (by decide) (by decide) (by decide) (by decide)
  have b4 := bufinv_addEdge (a := 4) (b := 3) i3 b3 (by decide) (by decide) (by decide) (by decide)
  have i5 := gcinv_addEdge (a := 1) (b := 4) i4 (by decide) (by decide) (by decide) (by decide)
  have b5 := bufinv_addEdge (a := 1) (b := 4) i4 b4 (by decide) (by decide) (by decide) (by decide)
  have i6 := gcinv_decRef_handle (n := 1) i5 (by decide) (by decide)
  have b6 := bufinv_decRef_handle (n := 1) i5 b5 (by decide) (by decide)
  have i7 := gcinv_decRef_handle (n := 2) i6 (by decide) (by decide)
  have b7 := bufinv_decRef_handle (n := 2) i6 b6 (by decide) (by decide)
  exact ⟨gcinv_decRef_handle (n := 4) i7 (by decide) (by decide),
    bufinv_decRef_handle (n := 4) i7 b7 (by decide) (by decide)⟩

set_option maxRecDepth 8192 in
/-- non-vacuity of `collect_cost_linear_on` with `S` a proper part of the graph: the candidates of
    `exSpare` are `1, 2, 4`, the set `S = [1, 2, 3, 4]` is duplicate-free, edge-closed and contains
    them, object `0` is outside; the candidates of the second pass are inside `S` again, and the
    collection costs 54 `trace()` calls ≤ 18·4 and 54 callbacks ≤ 18·5 -/
example : [1, 2, 3, 4].Nodup ∧ GcInv exSpare ∧ BufInv exSpare ∧ exSpare.oof = false ∧
    exSpare.roots = [1, 2, 4] ∧ Closed exSpare [1, 2, 3, 4] ∧ exSpare.nextId = 5 ∧
    (onePass exSpare).roots = [2, 4] ∧
    [1, 2, 3, 4].length = 4 ∧ edgesOf exSpare [1, 2, 3, 4] = 5 ∧
    (collectCycles exSpare).traceCalls = 54 ∧ (collectCycles exSpare).edgeCalls = 54 := by
  refine ⟨by decide, exSpare_inv_buf.1, exSpare_inv_buf.2, by decide, by decide, ?_, by decide,
    by decide, by decide, by decide, by decide, by decide⟩
  unfold Closed; decide

end Gc
end SodiumVerif
