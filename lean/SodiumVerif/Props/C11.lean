/-
  C11 — StreamLoop / CellLoop are transparent forward references; misuse fails fast.
  Property theorems about S: a looped stream fires exactly what its target fires, a looped cell has
  exactly its target's value — so every definition that reads the loop reads the target.  The
  misuse clauses (loop twice, sample before loop) are part of the script semantics (`Spec/Script`),
  where they are the outcome `PANIC …`, never a number.
-/
import SodiumVerif.Props.C13
import SodiumVerif.Spec.Script

namespace SodiumVerif
namespace Spec

variable {sp : Spec} {ev : Events} {i : Nat}

/-- a closed StreamLoop fires, in every transaction, exactly what the stream it was looped to fires -/
theorem sloop_fires {t} (h : sp.getDef i = .sloop) (hl : sp.loopTo.get i = some t) (hr : Resolved sp ev i) :
    fire (fireTable sp ev) i = fire (fireTable sp ev) t := by
  have he := hr.eqn
  rw [fireOf_sloop _ _ _ _ h, hl] at he
  simp only at he
  cases ht : (fireTable sp ev).get t with
  | none => rw [ht] at he; cases he
  | some x => rw [ht] at he; rw [fire_of_get ht]; simpa using he.symm

/-- the update stream of a closed CellLoop fires what its target's update stream fires -/
theorem cloop_fires' {t} (h : sp.getDef i = .cloop) (hl : sp.loopTo.get i = some t) (hr : Resolved sp ev i) :
    fire (fireTable sp ev) i = fire (fireTable sp ev) t := by
  have he := hr.eqn
  rw [fireOf_cloop _ _ _ _ h, hl] at he
  simp only at he
  cases ht : (fireTable sp ev).get t with
  | none => rw [ht] at he; cases he
  | some x => rw [ht] at he; rw [fire_of_get ht]; simpa using he.symm

/-- an unclosed loop never fires (it is a stream that has no events yet) -/
theorem sloop_unclosed_silent (h : sp.getDef i = .sloop) (hl : sp.loopTo.get i = none) :
    fire (fireTable sp ev) i = none := by
  cases hg : (fireTable sp ev).get i with
  | none => exact fire_of_get_none hg
  | some r =>
    have := fireTable_solves sp ev i r hg
    rw [fireOf_sloop _ _ _ _ h, hl] at this
    rw [fire_of_get hg]; simpa using this.symm

/-- a CellLoop's cell has the looped cell's value in every reachable state (from the defining
    transaction on) -/
theorem cloop_value {rank : Nat → Nat} (wf : WellFormed sp rank) (h0 : ∀ j, sp.stored.get j = none)
    {t} (h : sp.getDef i = .cloop) (hl : sp.loopTo.get i = some t) (evs : List Events) :
    (run sp evs).val i = (run sp evs).val t :=
  lift_inv_cloop wf h0 h hl evs

/-- looping twice is the outcome `PANIC looped-twice` of the script semantics, and the script is dead
    afterwards (no value is ever produced from the second target) -/
theorem double_loop_panics (st : St) (l s : String) (li si t : Nat)
    (hs : st.stream s = some si) (hl : st.find l = some (.ent li .sl))
    (hc : st.sp.loopTo.get li = some t) :
    (sloopCloseStmt st l s).2 = "PANIC looped-twice" ∧ (sloopCloseStmt st l s).1.dead = true := by
  simp [sloopCloseStmt, hs, hl, hc]

/-- sampling a CellLoop's cell before it is looped is the outcome `PANIC sample-before-loop` -/
theorem sample_before_loop_panics (st : St) (c : String) (ci : Nat)
    (hc : st.cell c = some ci) (hv : st.sp.val ci = none) :
    (sampleStmt st c).2 = "PANIC sample-before-loop" := by
  simp [sampleStmt, hc, hv]

/-- the statement interpreter dispatches `sloopclose` / `sample` lines to these functions -/
theorem stmt_sloopclose (st : St) (l s : String) : stmt st ["sloopclose", l, s] = sloopCloseStmt st l s := by
  unfold stmt; rfl
theorem stmt_sample (st : St) (c : String) : stmt st ["sample", c] = sampleStmt st c := by
  unfold stmt; rfl

end Spec
end SodiumVerif
