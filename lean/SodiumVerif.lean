-- Root of the `SodiumVerif` library: models, lemmas, property theorems, audit.
import SodiumVerif.Model.Store
import SodiumVerif.Model.Gc
import SodiumVerif.Model.GcScript
import SodiumVerif.Model.Sched
import SodiumVerif.Model.SchedScript
import SodiumVerif.Spec.Denot
import SodiumVerif.Spec.Script
import SodiumVerif.Model.Txn
import SodiumVerif.Model.TxnScript
import SodiumVerif.Model.Lazy
import SodiumVerif.Model.LazyHeap
import SodiumVerif.Model.LazyScript
import SodiumVerif.Model.Conc
