import SodiumVerif.Model.GcScript
import SodiumVerif.Model.SchedScript
import SodiumVerif.Spec.Script
import SodiumVerif.Model.TxnScript
import SodiumVerif.Model.Conc
import SodiumVerif.Model.Struct
import SodiumVerif.Model.SchedApi
import SodiumVerif.Model.LazyScript

open SodiumVerif

partial def gcLoop (h : IO.FS.Stream) (out : IO.FS.Stream) (s : GcScript.St) : IO Unit := do
  let line ← h.getLine
  if line.isEmpty then return ()
  let (s', o) := GcScript.step s line
  out.putStrLn o
  gcLoop h out s'

partial def nodeLoop (h : IO.FS.Stream) (out : IO.FS.Stream) (s : SchedScript.S) : IO Unit := do
  let line ← h.getLine
  if line.isEmpty then return ()
  let (s', o) := SchedScript.step s line
  out.putStrLn o
  nodeLoop h out s'

partial def txnLoop (h : IO.FS.Stream) (out : IO.FS.Stream) (s : TxnScript.S) : IO Unit := do
  let line ← h.getLine
  if line.isEmpty then return ()
  let (s', o) := TxnScript.step s line
  out.putStrLn o
  txnLoop h out s'

partial def lazyLoop (h : IO.FS.Stream) (out : IO.FS.Stream) (s : LazyHeap.State) : IO Unit := do
  let line ← h.getLine
  if line.isEmpty then return ()
  let (s', o) := LazyScript.step s line
  out.putStrLn o
  lazyLoop h out s'

partial def structLoop (h : IO.FS.Stream) (out : IO.FS.Stream) (s : Struct.PSt) : IO Unit := do
  let line ← h.getLine
  if line.isEmpty then return ()
  let (s', o) := Struct.step s line
  out.putStrLn o
  structLoop h out s'

partial def readAll (h : IO.FS.Stream) (acc : Array String) : IO (Array String) := do
  let line ← h.getLine
  if line.isEmpty then return acc
  readAll h (acc.push line)

/-- S next to M_struct: one line of the script on the specification (values only; answers are not used here) -/
def specStep (st : Spec.St) (matched : Bool) (w : List String) : Spec.St :=
  if st.dead then st else
  match w with
  | ["begin"] => if matched then { st with depth := st.depth + 1 } else st
  | ["end"] =>
    if matched then
      let st := { st with depth := st.depth - 1 }
      if st.depth == 0 then (Spec.closeTxn st).1 else st
    else st
  | w => (Spec.stmt st w).1

/-- L-struct on a whole script: M_struct is told, before every line, what every cell of S is worth after that line
    (driver-internal line `cellvals`), and which cell of S the selector of a switch is (`@id`) -/
def structSeg (lines : List String) : List String :=
  let ws := (lines.map Spec.splitWords).toArray
  let matched := Spec.matchBrackets ws
  let (_, _, outs) := (List.range ws.size).foldl (fun (acc : Spec.St × Struct.PSt × Array String) i =>
    let (st, p, outs) := acc
    let w := ws[i]!
    let line := " ".intercalate w
    let line := match w with
      | "switchs" :: _ :: sel :: _ | "switchc" :: _ :: sel :: _ =>
        (match st.cell sel with | some id => line ++ s!" @{id}" | none => line)
      | ["once", _, _] => line ++ s!" @{st.sp.defs.size}"       -- the number the new stream gets in S
      | _ => line
    let st := specStep st matched[i]! w
    let vals := (List.range st.sp.defs.size).filterMap fun c => (st.sp.val c).map fun v => s!"{c}:{v}"
    let p := (Struct.step p (" ".intercalate ("cellvals" :: vals))).1
    let dones := (List.range st.sp.defs.size).filter fun c => st.sp.onceDone.get c
    let p := (Struct.step p (" ".intercalate ("oncedone" :: dones.map toString))).1
    let (p, o) := Struct.step p line
    (st, p, outs.push o)) (({} : Spec.St), ({} : Struct.PSt), #[])
  outs.toList

def structMain (stdin stdout : IO.FS.Stream) : IO Unit := do
  let lines ← readAll stdin #[]
  let mut cur : Array String := #[]
  for l in lines do
    if l.trimAscii.toString == "---" then
      for o in structSeg cur.toList do stdout.putStrLn o
      stdout.putStrLn "---"
      cur := #[]
    else cur := cur.push l
  for o in structSeg cur.toList do stdout.putStrLn o

partial def schedApiLoop (h : IO.FS.Stream) (out : IO.FS.Stream) (s : SchedApi.St) : IO Unit := do
  let line ← h.getLine
  if line.isEmpty then return ()
  let (s', o) := SchedApi.step s line
  out.putStrLn o
  schedApiLoop h out s'

def concLine (line : String) : String :=
  let parts := (line.splitOn "|").map (·.trimAscii.toString)
  if parts.length < 3 then "bad-op" else
  let head := (parts[0]!.splitOn " ").filter (· ≠ "")
  let nsinks := (head.getD 1 "1").toNat?.getD 1
  let parseProg (p : String) : List (Nat × Int) :=
    (p.splitOn ",").filterMap fun sv =>
      match (sv.trimAscii.toString.splitOn ":") with
      | [s, v] => match s.toNat?, v.toInt? with | some s, some v => some (s, v) | _, _ => none
      | _ => none
  let progs := ((parts.drop 1).dropLast).map parseProg
  let sched := (parts.getLast!.splitOn ",").filterMap fun x => x.trimAscii.toString.toNat?
  Conc.showRes (Conc.run nsinks progs sched)

partial def concLoop (h : IO.FS.Stream) (out : IO.FS.Stream) : IO Unit := do
  let line ← h.getLine
  if line.isEmpty then return ()
  let l := line.trimAscii.toString
  out.putStrLn (if l == "---" then "---" else if l.startsWith "conc" then concLine l else "bad-op")
  concLoop h out

def specMain (stdin stdout : IO.FS.Stream) : IO Unit := do
  let lines ← readAll stdin #[]
  let mut cur : Array String := #[]
  for l in lines do
    if l.trimAscii.toString == "---" then
      for o in Spec.runScript cur.toList do stdout.putStrLn o
      stdout.putStrLn "---"
      cur := #[]
    else cur := cur.push l
  for o in Spec.runScript cur.toList do stdout.putStrLn o

def main (args : List String) : IO UInt32 := do
  let stdin ← IO.getStdin
  let stdout ← IO.getStdout
  match args with
  | ["gc"] => gcLoop stdin stdout {}; return 0
  | ["node"] => nodeLoop stdin stdout {}; return 0
  | ["spec"] => specMain stdin stdout; return 0
  | ["txn"] => txnLoop stdin stdout {}; return 0
  | ["conc"] => concLoop stdin stdout; return 0
  | ["lazy"] => lazyLoop stdin stdout LazyHeap.State.empty; return 0
  | ["struct"] => structMain stdin stdout; return 0
  | ["schedapi"] => schedApiLoop stdin stdout {}; return 0
  | _ => IO.eprintln "usage: driver gc|node|txn|spec|conc|lazy|struct|schedapi < script"; return 2
