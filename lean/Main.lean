import SodiumVerif.Model.GcScript
import SodiumVerif.Model.SchedScript
import SodiumVerif.Spec.Script
import SodiumVerif.Model.TxnScript

open SodiumVerif

partial def gcLoop (h : IO.FS.Stream) (out : IO.FS.Stream) (s : GcScript.St) : IO Unit := do
  let line ← h.getLine
  if line.isEmpty then return ()
  let (s', o) := GcScript.step s line
  out.putStrLn o
  gcLoop h out s'

partial def nodeLoop (h : IO.FS.Stream) (out : IO.FS.Stream) (s : SchedScript.S) : IO Unit := do
  let line ← h.getLine
  if line.isEmpty then return ()
  let (s', o) := SchedScript.step s line
  out.putStrLn o
  nodeLoop h out s'

partial def txnLoop (h : IO.FS.Stream) (out : IO.FS.Stream) (s : TxnScript.S) : IO Unit := do
  let line ← h.getLine
  if line.isEmpty then return ()
  let (s', o) := TxnScript.step s line
  out.putStrLn o
  txnLoop h out s'

partial def readAll (h : IO.FS.Stream) (acc : Array String) : IO (Array String) := do
  let line ← h.getLine
  if line.isEmpty then return acc
  readAll h (acc.push line)

def specMain (stdin stdout : IO.FS.Stream) : IO Unit := do
  let lines ← readAll stdin #[]
  let mut cur : Array String := #[]
  for l in lines do
    if l.trimAscii.toString == "---" then
      for o in Spec.runScript cur.toList do stdout.putStrLn o
      stdout.putStrLn "---"
      cur := #[]
    else cur := cur.push l
  for o in Spec.runScript cur.toList do stdout.putStrLn o

def main (args : List String) : IO UInt32 := do
  let stdin ← IO.getStdin
  let stdout ← IO.getStdout
  match args with
  | ["gc"] => gcLoop stdin stdout {}; return 0
  | ["node"] => nodeLoop stdin stdout {}; return 0
  | ["spec"] => specMain stdin stdout; return 0
  | ["txn"] => txnLoop stdin stdout {}; return 0
  | _ => IO.eprintln "usage: driver gc|node|api|spec < script"; return 2
